#!/bin/bash
# Coverage-guided campaign (cargo-fuzz / libFuzzer, sanitizer none) for one target, fixed work.
# usage: fuzz_campaign.sh <target> <PROP> <runs-per-job> <jobs> <stats-json-out>
# exit 0: nothing found; 1: violation (prints "VIOLATION property=<id> replay=<path>");
# exit 2: inconclusive (build failure, out-of-memory, timeout, harness problem)
T=$1; P=$2; RUNS=$3; JOBS=${4:-8}; STATS=$5
VERIF=/verif
cd "$VERIF" || exit 2
if ! CARGO_NET_OFFLINE=true cargo +nightly fuzz build --fuzz-dir fuzz -s none "$T" > "fuzz/.build.$T.log" 2>&1; then
  echo "INCONCLUSIVE: cargo fuzz build failed (see fuzz/.build.$T.log)"; exit 2
fi
BIN="$VERIF/fuzz/target/x86_64-unknown-linux-gnu/release/$T"
W="$VERIF/fuzz/corpus/$T.$$"; rm -rf "$W"; mkdir -p "$W/corpus" "$W/seeds" "$W/art"
"$VERIF/harness/target/release/vcheck" emit-seeds "$T" "$W/seeds" > /dev/null || { echo "INCONCLUSIVE: seed emission failed"; exit 2; }
if [ "$T" = ast_text ]; then
  # the repository's own sources as additional starting points (small files only)
  i=0; for f in $(find /repo/stdlib/asm /repo/miden/examples -name '*.masm' -size -4k 2>/dev/null | sort | head -40); do cp "$f" "$W/seeds/repo-$i.masm"; i=$((i+1)); done
fi
seed=${VERIF_SEED:-0}; [ "$seed" = 0 ] && seed=1   # libFuzzer treats 0 as "random"
t0=$(date +%s)
( cd "$W" && "$BIN" corpus seeds -runs="$RUNS" -seed="$seed" -max_len=4096 -len_control=0 -timeout=60 \
    -rss_limit_mb=8192 -malloc_limit_mb=40000 -artifact_prefix=art/ -jobs="$JOBS" -workers="$JOBS" \
    -print_final_stats=1 > campaign.log 2>&1 )
t1=$(date +%s)
execs=$(cat "$W"/fuzz-*.log 2>/dev/null | grep -a "stat::number_of_executed_units" | awk '{s+=$2} END {print s+0}')
cov=$(cat "$W"/fuzz-*.log 2>/dev/null | grep -a -o "cov: [0-9]*" | awk '{if ($2>m) m=$2} END {print m+0}')
corp=$(ls "$W/corpus" | wc -l)
nseeds=$(ls "$W/seeds" | wc -l)
rc=0; replay=""
if ls "$W"/art/crash-* > /dev/null 2>&1; then
  line=$(cat "$W"/fuzz-*.log | grep -a -m1 "^FUZZ-VIOLATION")
  if [ -n "$line" ]; then
    replay=$(echo "$line" | sed -n 's/.*replay=\([^ ]*\).*/\1/p')
    echo "$line"
    cat "$W"/fuzz-*.log | grep -a -A1 -m1 "^FUZZ-VIOLATION" | tail -1
    echo "VIOLATION property=$P replay=$replay"
    rc=1
  else
    # the process died without the oracle speaking: stack overflow, abort inside a dependency...
    a=$(ls "$W"/art/crash-* | head -1); mkdir -p "$VERIF/replays"; cp "$a" "$VERIF/replays/$P-fuzz-$T-$(basename "$a")"
    echo "INCONCLUSIVE: $T died without an oracle verdict; input kept as replays/$P-fuzz-$T-$(basename "$a")"
    cat "$W"/fuzz-*.log | grep -a -m3 -i "HARNESS PANIC\|deadly signal\|stack overflow" 
    rc=2
  fi
elif ls "$W"/art/oom-* "$W"/art/timeout-* > /dev/null 2>&1; then
  echo "INCONCLUSIVE: $T hit the memory or time limit of one input"; rc=2
elif [ "$execs" = 0 ]; then
  echo "INCONCLUSIVE: $T executed nothing"; tail -5 "$W/campaign.log"; rc=2
fi
if [ -n "$STATS" ]; then
  printf '{"target":"%s","engine":"libFuzzer (cargo-fuzz 0.13, sanitizer none)","jobs":%s,"runs_per_job":%s,"executions":%s,"edge_coverage":%s,"corpus_files":%s,"seed_files":%s,"libfuzzer_seed":%s,"wall_s":%s,"outcome":%s}\n' \
    "$T" "$JOBS" "$RUNS" "$execs" "$cov" "$corp" "$nseeds" "$seed" "$((t1-t0))" "$rc" > "$STATS"
fi
echo "[fuzz $T] executions=$execs edge_coverage=$cov corpus=$corp wall=$((t1-t0))s outcome=$rc"
rm -rf "$W"
exit $rc
