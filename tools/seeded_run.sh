#!/bin/bash
# usage: seeded_run.sh <patch> <out-prefix> <ID> [<ID> ...]
# applies a seeded change to /repo, runs the quick tier of the listed checks, and always undoes it.
# prints one line per check: "SEEDED <patch> <ID> exit=<code> <first VIOLATION line>"
patch=$1; out=$2; shift 2
cd /repo || exit 2
if [ -n "$(git status --porcelain --untracked-files=no)" ]; then echo "/repo is not clean"; exit 2; fi
git apply "$patch" || { echo "SEEDED $patch apply=fail"; exit 2; }
trap 'git -C /repo checkout -q -- .' EXIT
for id in "$@"; do
  VERIF_EVIDENCE_DIR=/tmp/seeded-evidence /verif/check "$id" --tier quick >"$out.$id.log" 2>&1
  code=$?
  v=$(grep -m1 "^VIOLATION" "$out.$id.log")
  s=$(grep -m1 "^violation: sig=" "$out.$id.log" | cut -c1-220)
  echo "SEEDED $(basename $patch) $id exit=$code $v | $s"
done
