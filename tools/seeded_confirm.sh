#!/bin/bash
# usage: seeded_confirm.sh <worktree> <patch> <log>
# applies <patch> in the scratch worktree, builds, runs the repository's whole test suite, reverts.
# prints "CONFIRM <patch> build=<ok|fail> tests_passed=<n> tests_failed=<n>"
wt=$1; patch=$2; log=$3
cd "$wt" || exit 2
git checkout -q -- . && git clean -qfd -e target
if ! git apply "$patch" 2>>"$log"; then echo "CONFIRM $patch apply=fail"; exit 1; fi
if ! cargo build --workspace --offline >>"$log" 2>&1; then echo "CONFIRM $patch build=fail"; git checkout -q -- .; exit 1; fi
cargo test --workspace --no-fail-fast --offline >>"$log" 2>&1
p=$(grep -E "^test result" "$log" | awk '{p+=$4} END {print p+0}')
f=$(grep -E "^test result" "$log" | awk '{f+=$6} END {print f+0}')
git checkout -q -- . && git clean -qfd -e target
echo "CONFIRM $patch build=ok tests_passed=$p tests_failed=$f"
