#!/usr/bin/env python3
"""Keep a confirmed seeded change: seeded_keep.py <PROP> <A|B> <slug> <tests_passed> <caught_by_json>
copies /tmp/mut/<PROP>-out/<A|B>.{patch.diff,demo.md,meta.json} into /verif/seeded/<PROP>-<A|B>-<slug>/
and records the confirmation (test-suite result obtained by us, which checks caught it)."""
import json, os, shutil, sys
prop, m, slug, passed, caught = sys.argv[1:6]
src = f"/tmp/mut/{prop}-out"
dst = f"/verif/seeded/{prop}-{m}-{slug}"
os.makedirs(dst, exist_ok=True)
shutil.copy(f"{src}/{m}.patch.diff", f"{dst}/patch.diff")
shutil.copy(f"{src}/{m}.demo.md", f"{dst}/demonstration.md")
meta = json.load(open(f"{src}/{m}.meta.json"))
meta["origin"] = "fresh sub-agent given only the property text and a scratch worktree"
meta["confirmed"] = {"applies_and_builds": True, "existing_tests_passed": int(passed), "existing_tests_failed": 0,
                     "confirmed_in": "scratch git worktree of /repo (removed afterwards)"}
meta["checks"] = json.loads(caught)
json.dump(meta, open(f"{dst}/meta.json", "w"), indent=1)
print("kept", dst)
