#!/usr/bin/env python3
"""Regenerates MANIFEST.json from the table below (kept here so that the manifest stays valid)."""
import json

ALL = ["C%02d" % i for i in range(1, 20)]
# id -> (category, technique, text, note, design_ref)
CHECKS = {
 "C01": ("exploration",
         "round-trip property testing (proptest): generated programs proved under all four standard option sets and verified against a statement rebuilt from the program",
         "For generated programs (every instruction class, control flow, call/syscall/dyn, kernels, deep inputs and outputs) and each of Blake3-96, Blake3-128, RPO-96, RPO-128 with generated expected-cycle hints: prove() succeeds, its outputs equal execute()'s and the reference model's, verify(ProgramInfo(program hash, kernel), inputs, outputs, proof) returns a level >= the configured one, the proof carries the configured hash tag, and the proof serialised to bytes and read back is equal and verifies; plus the 2^k-1-cycle boundary found by C03. Sample sizes follow proving cost (quick 96/32/16/4).",
         "Completeness only (C02 covers rejection). Option-independent failures are searched 40x more densely by C03, which evaluates the AIR directly on the same generator.",
         "DESIGN.md sec. 3 C01"),
 "C02": ("fault_enumeration",
         "fault injection by generated alterations (proptest) of valid statements and serialised proofs, stratified by field and byte region, plus an exhaustive single-byte sweep of header and tail and an enumeration of out-of-set proving parameters",
         "For valid (program, inputs, outputs, proof) tuples (Blake3-96/-128, RPO-96): one input/output element at any position incl. overflow, input count, overflow addresses changed/dropped/added, program-hash limb, kernel procedure added/removed/altered, another program's statement, relabelled hash tag, proof re-wrapped under another hash function, truncation/extension, bit flips and byte sets (header 40% / tail 10% / body 50%); every single-byte change from an 8-value set over the first 140 and last 70 bytes of a Blake3 and an RPO proof; ten honestly proved parameter sets outside the accepted ones. Oracle: decode or verify returns an error; acceptance or a panic is a violation; alterations that leave the zero-padded statement or the decoded proof unchanged are counted as trivial. Both build flavours.",
         "Decides tamper-evidence against generated single alterations, not unforgeability. Known findings (listed): winterfell panics on malformed proof bytes (per dependency crate), FriProof::num_partitions unbound.",
         "DESIGN.md sec. 3 C02"),
 "C03": ("exploration",
         "property-based testing (proptest) over generated programs with an executable AIR oracle: every transition constraint and boundary assertion evaluated on the honest trace",
         "Programs from the full generator (all instruction classes, control flow, procedures, call/syscall/dyn, kernels, memory, locals, advice) are executed honestly under generated expected-cycle hints; the main segment and the auxiliary segment built for 16 generated challenges (base, quadratic and cubic extension) are checked against every main/aux transition constraint on every non-exempt row and every boundary assertion of ProcessorAir instantiated with the caller's inputs and the reported outputs; the trace-length rule is recomputed (power of two, >= 64, accommodates cycles counted from the decoder columns, range table, chiplet rows, plus the random row) and the main segment is compared across hints. Held on everything explored.",
         "Trusted: winterfell's Air trait plumbing (evaluate_transition etc. are the code under test), the generator/model for producing succeeding programs, proptest. A consistency relation between processor and AIR: a change weakening both sides in step is C04's/C05's job.",
         "DESIGN.md sec. 3 C03"),
 "C05": ("exploration",
         "model-based differential property testing (proptest): generated straight-line programs vs a from-the-docs instruction-level reference interpreter",
         "Generated instruction sequences (every field/comparison/ext2/u32/stack/push/env instruction, immediate forms, boundary operands, initial depth 0..40) are assembled and executed; the complete final stack (and, where the documentation fixes it, the exact depth) must equal the reference model's; documented failures must fail (assertions with their error code), undocumented ones must not; panics are violations. Held-on-everything-explored, not absence.",
         "Trusted: the reference model transcribed from docs/src/user_docs/assembly, miden-crypto/winter-math from the registry, proptest. Instructions the docs call 'undefined' on an operand class are kept out of that class by construction.",
         "DESIGN.md sec. 3 C05"),
 "C06": ("exploration",
         "model-based differential + metamorphic property testing (proptest) over generated nestings of if/while/repeat/exec; enumeration of non-binary condition values at every decision point",
         "Generated nestings (depth <= 4) of if/else, while (advice-, memory-counter- and constant-controlled, 0..5 iterations), repeat and exec with locals are compared with the reference model (final stack, documented failures); model-free metamorphic variants (repeat unrolled textually, exec bodies pasted at the call site) must give the same result; non-binary values at if, loop entry, loop re-check (first and later iterations, nested) must fail, never panic. Run in both build flavours.",
         "Trusted: reference model from flow_control.md / code_organization.md, proptest.",
         "DESIGN.md sec. 3 C06"),
 "C07": ("exploration",
         "model-based differential property testing (proptest) over generated call graphs with a per-context memory model; history invariants recomputed from the memory-chiplet and system columns of the trace; enumerated error paths",
         "Generated call graphs (exec/call/syscall against generated kernels/dynexec/dyncall, locals, caller) doing element/word/stream/pipe/local loads and stores over a colliding address pool are compared with the per-context reference model on the final stack, the final memory of every context and failures; from the trace: every memory read returns the last write to (ctx, addr) or zeros, element stores change only element 0, after every CALL/SYSCALL..END ctx/fmp/fn-hash/depth/overflow-address are restored, callee starts at depth 16 in a fresh (or the root) context with the documented locals base; enumerated: depth != 16 on return, syscall target not in kernel, caller outside syscall, addresses >= 2^32 incl. both addresses of mem_stream/adv_pipe. Both build flavours.",
         "Trusted: reference model from execution_contexts.md / io_operations.md; locals are compared only after being written in the same frame activation; processor `internals` feature for reading final memory. Known finding: caller after dyncall (known_findings.json).",
         "DESIGN.md sec. 3 C07"),
 "C08": ("exploration",
         "exhaustive enumeration of push/non-push patterns + property-based testing (proptest) with a validity-predicate oracle for the documented batching rules and an independent RPO recomputation of span and control-block hashes; metamorphic hash invariance/sensitivity",
         "Operation sequences (all push/non-push patterns up to length 13 quick / 18 thorough over three palettes, all (k non-push, j push, tail) boundary shapes, random sequences up to 700 ops) are turned into spans and the batches are checked against the documented rules (<= 8 groups per batch, <= 9 ops per group, immediates in following groups of the same batch, immediate-carrying op never last in its group, groups decode back to the sequence up to NOOPs, op lists agree with groups); span hash = miden-crypto hash_elements over the batches; for assembled generated programs every block hash (join/split/loop/call/syscall/dyn with the opcode as domain) and every code-block-table body is recomputed bottom-up through public accessors; the hash is unchanged by comments, whitespace, procedure renaming, debug mode and decorators, changes with an inserted operation or a changed immediate, and equals the hash recorded by the execution trace. The documented opcode table is compared with Operation::op_code for all 89 operations.",
         "Trusted: miden-crypto Rpo256 (registry), the documented opcode table transcribed into tracekit::opc. Batching is checked as a validity predicate (the docs give rules, not the greedy algorithm).",
         "DESIGN.md sec. 3 C08"),
 "C13": ("exploration",
         "property-based testing (proptest) with an independent MAST walker as reference: prescribed operation-per-clock stream vs the opcode columns of the trace",
         "For generated programs (all block kinds, nesting <= 4, loops with 0..n iterations, calls/syscalls/dyn) and spans of every length 1..200 with eight immediate placements, an independent walker over Program::root()/cb_table prescribes the operation of every clock cycle from the decisions read off the stack column (block starts, span ops with NOOPs only at the documented alignment places, RESPAN, END, REPEAT, HALT padding) and this is compared for equality with the trace; END rows carry their block's address, group counter 0 at span ends, in_span only on span operations, last decoder row = program hash, cycles = rows walked.",
         "Trusted: op batches of core (validated against the documented rules by C08), documented opcode table.",
         "DESIGN.md sec. 3 C13, Appendix C"),
 "C14": ("exploration",
         "metamorphic property testing (proptest): re-execution / hints / tracing / debug mode / decorator removal must give the identical main trace; VmStateIterator under generated and exhaustively enumerated next/back scripts vs state reconstructed from the trace",
         "Generated programs with decorators: identical 70-column main segment and outputs on re-run, under another expected-cycles hint, with tracing on, when assembled in debug mode and with debug/emit/trace decorators removed; every VmState returned by a forward sweep, by generated stepping scripts and by all 254 next/back scripts of length <= 7 on a fixed program is compared with the trace at that clock (top 16, depth, overflow items reconstructed from the stack columns, fmp, ctx, op, per-context memory from memory-chiplet rows with clk < t); None only at the ends, no panic; every CLK row pushes the clk column. Both build flavours.",
         "Known finding (listed): the iterator's items below position 15 come from a broken overflow history; matched only on the exact emulated pattern. Trusted: trace column layout from the design docs.",
         "DESIGN.md sec. 3 C14"),
 "C15": ("exploration",
         "property-based testing (proptest) with the unlimited run as reference; generated non-terminating programs under a watchdog; enumeration of the option constructor around its boundaries",
         "Terminating generated programs are re-run with limits N-3..N+3, 64, N/2, 2N, N+1000, u32::MAX: Ok iff N <= limit with identical outputs, otherwise CycleLimitExceeded(limit), never a host callback beyond the limit; generated non-terminating loops (nested loops, growing stack and memory, events per iteration) with limits 64..2^16 must stop with that error (60 s watchdog vs milliseconds expected); ExecutionOptions::new enumerated over 14x12 (max, expected) pairs: refused iff max < 64 or max < expected; the limit also applies through prove().",
         "Expected-cycle values above 2^16+1 are outside the enumerated domain (no u32 power of two above 2^31; allocation size).",
         "DESIGN.md sec. 3 C15"),
 "C12": ("exploration",
         "property-based testing (proptest) over generated programs: terminal-value oracle for every auxiliary running-product/sum column under generated challenges",
         "Programs biased to chiplet traffic (hperm/hash/hmerge, u32 bitwise, every memory instruction incl. mem_stream/adv_pipe, multi-batch spans, every control block, call/syscall with kernels, dynexec/dyncall) are executed and the auxiliary segment is built for 16 generated challenges; block stack (p1), block hash (p2, initial value = program-hash row), op group (p3), chiplets bus and chiplets virtual table (= product of kernel procedure rows) must start and end at their specified values; the stack overflow table and b_range terminals are boundary assertions checked in C03.",
         "Oracle A only (terminal values); the challenge-free recount of requests/responses (oracle B of DESIGN.md) is not built yet. Specified values from docs/src/design/{decoder,chiplets,lookups}.",
         "DESIGN.md sec. 3 C12"),
}
NOT_BUILT = "check not built yet in this session (see DESIGN.md sec. 6b staging); will be claimed when its machinery exists"

checks = []
for pid in ALL:
    if pid in CHECKS:
        cat, tech, text, note, ref = CHECKS[pid]
        checks.append({
            "property_id": pid,
            "quick_cmd": "./check %s --tier quick" % pid,
            "thorough_cmd": "./check %s --tier thorough" % pid,
            "evidence_file": "/verif/evidence/%s.json" % pid,
            "replay_cmd_template": "./check %s --replay {path}" % pid,
            "engine": "vharness",
            "level_claimed": {"category": cat, "text": text, "design_ref": ref},
            "level_note": note,
            "technique": tech,
        })
manifest = {
    "version": 1,
    "setup_cmd": "./check --setup",
    "hooks": {
        "guard": "cf_miden_vm_verif",
        "enable": "RUSTFLAGS=--cfg cf_miden_vm_verif (no source in /repo currently tests the flag: every observation goes through public API and the upstream `internals` feature of miden-processor)",
        "baseline_off_cmd": "cd /repo && cargo test --workspace --no-fail-fast --offline",
        "source_commits": [],
        "add_only": True,
    },
    "engines": [
        {"name": "vharness", "path": "/verif/harness",
         "serves_properties": sorted(CHECKS.keys()),
         "kind_free_text": "Rust binary `vcheck` (proptest 1.11 used as a library, 16 workers, fixed seeds from VERIF_SEED, shrinking to replay files); path-depends on the crates in /repo so every run rebuilds from the current working tree; built in two flavours (release, release+debug-assertions+overflow-checks)"},
    ],
    "checks": checks,
    "not_applicable": [{"property_id": p, "reason": NOT_BUILT} for p in ALL if p not in CHECKS],
    "notes": "Exit codes: 0 held, 1 VIOLATION line, 2 inconclusive (build failure / watchdog). Known findings: /verif/known_findings.json.",
}
json.dump(manifest, open("/verif/MANIFEST.json", "w"), indent=1)
print("checks:", len(checks), "not_applicable:", len(manifest["not_applicable"]))
