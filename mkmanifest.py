#!/usr/bin/env python3
"""Regenerates MANIFEST.json from the table below (kept here so that the manifest stays valid)."""
import json

ALL = ["C%02d" % i for i in range(1, 20)]
# id -> (category, technique, text, note, design_ref)
CHECKS = {
 "C03": ("exploration",
         "property-based testing (proptest) over generated programs with an executable AIR oracle: every transition constraint and boundary assertion evaluated on the honest trace",
         "Programs from the full generator (all instruction classes, control flow, procedures, call/syscall/dyn, kernels, memory, locals, advice) are executed honestly under generated expected-cycle hints; the main segment and the auxiliary segment built for 16 generated challenges (base, quadratic and cubic extension) are checked against every main/aux transition constraint on every non-exempt row and every boundary assertion of ProcessorAir instantiated with the caller's inputs and the reported outputs; the trace-length rule is recomputed (power of two, >= 64, accommodates cycles counted from the decoder columns, range table, chiplet rows, plus the random row) and the main segment is compared across hints. Held on everything explored.",
         "Trusted: winterfell's Air trait plumbing (evaluate_transition etc. are the code under test), the generator/model for producing succeeding programs, proptest. A consistency relation between processor and AIR: a change weakening both sides in step is C04's/C05's job.",
         "DESIGN.md sec. 3 C03"),
 "C05": ("exploration",
         "model-based differential property testing (proptest): generated straight-line programs vs a from-the-docs instruction-level reference interpreter",
         "Generated instruction sequences (every field/comparison/ext2/u32/stack/push/env instruction, immediate forms, boundary operands, initial depth 0..40) are assembled and executed; the complete final stack (and, where the documentation fixes it, the exact depth) must equal the reference model's; documented failures must fail (assertions with their error code), undocumented ones must not; panics are violations. Held-on-everything-explored, not absence.",
         "Trusted: the reference model transcribed from docs/src/user_docs/assembly, miden-crypto/winter-math from the registry, proptest. Instructions the docs call 'undefined' on an operand class are kept out of that class by construction.",
         "DESIGN.md sec. 3 C05"),
 "C06": ("exploration",
         "model-based differential + metamorphic property testing (proptest) over generated nestings of if/while/repeat/exec; enumeration of non-binary condition values at every decision point",
         "Generated nestings (depth <= 4) of if/else, while (advice-, memory-counter- and constant-controlled, 0..5 iterations), repeat and exec with locals are compared with the reference model (final stack, documented failures); model-free metamorphic variants (repeat unrolled textually, exec bodies pasted at the call site) must give the same result; non-binary values at if, loop entry, loop re-check (first and later iterations, nested) must fail, never panic. Run in both build flavours.",
         "Trusted: reference model from flow_control.md / code_organization.md, proptest.",
         "DESIGN.md sec. 3 C06"),
 "C07": ("exploration",
         "model-based differential property testing (proptest) over generated call graphs with a per-context memory model; history invariants recomputed from the memory-chiplet and system columns of the trace; enumerated error paths",
         "Generated call graphs (exec/call/syscall against generated kernels/dynexec/dyncall, locals, caller) doing element/word/stream/pipe/local loads and stores over a colliding address pool are compared with the per-context reference model on the final stack, the final memory of every context and failures; from the trace: every memory read returns the last write to (ctx, addr) or zeros, element stores change only element 0, after every CALL/SYSCALL..END ctx/fmp/fn-hash/depth/overflow-address are restored, callee starts at depth 16 in a fresh (or the root) context with the documented locals base; enumerated: depth != 16 on return, syscall target not in kernel, caller outside syscall, addresses >= 2^32 incl. both addresses of mem_stream/adv_pipe. Both build flavours.",
         "Trusted: reference model from execution_contexts.md / io_operations.md; locals are compared only after being written in the same frame activation; processor `internals` feature for reading final memory. Known finding: caller after dyncall (known_findings.json).",
         "DESIGN.md sec. 3 C07"),
 "C12": ("exploration",
         "property-based testing (proptest) over generated programs: terminal-value oracle for every auxiliary running-product/sum column under generated challenges",
         "Programs biased to chiplet traffic (hperm/hash/hmerge, u32 bitwise, every memory instruction incl. mem_stream/adv_pipe, multi-batch spans, every control block, call/syscall with kernels, dynexec/dyncall) are executed and the auxiliary segment is built for 16 generated challenges; block stack (p1), block hash (p2, initial value = program-hash row), op group (p3), chiplets bus and chiplets virtual table (= product of kernel procedure rows) must start and end at their specified values; the stack overflow table and b_range terminals are boundary assertions checked in C03.",
         "Oracle A only (terminal values); the challenge-free recount of requests/responses (oracle B of DESIGN.md) is not built yet. Specified values from docs/src/design/{decoder,chiplets,lookups}.",
         "DESIGN.md sec. 3 C12"),
}
NOT_BUILT = "check not built yet in this session (see DESIGN.md sec. 6b staging); will be claimed when its machinery exists"

checks = []
for pid in ALL:
    if pid in CHECKS:
        cat, tech, text, note, ref = CHECKS[pid]
        checks.append({
            "property_id": pid,
            "quick_cmd": "./check %s --tier quick" % pid,
            "thorough_cmd": "./check %s --tier thorough" % pid,
            "evidence_file": "/verif/evidence/%s.json" % pid,
            "replay_cmd_template": "./check %s --replay {path}" % pid,
            "engine": "vharness",
            "level_claimed": {"category": cat, "text": text, "design_ref": ref},
            "level_note": note,
            "technique": tech,
        })
manifest = {
    "version": 1,
    "setup_cmd": "./check --setup",
    "hooks": {
        "guard": "cf_miden_vm_verif",
        "enable": "RUSTFLAGS=--cfg cf_miden_vm_verif (no source in /repo currently tests the flag: every observation goes through public API and the upstream `internals` feature of miden-processor)",
        "baseline_off_cmd": "cd /repo && cargo test --workspace --no-fail-fast --offline",
        "source_commits": [],
        "add_only": True,
    },
    "engines": [
        {"name": "vharness", "path": "/verif/harness",
         "serves_properties": sorted(CHECKS.keys()),
         "kind_free_text": "Rust binary `vcheck` (proptest 1.11 used as a library, 16 workers, fixed seeds from VERIF_SEED, shrinking to replay files); path-depends on the crates in /repo so every run rebuilds from the current working tree; built in two flavours (release, release+debug-assertions+overflow-checks)"},
    ],
    "checks": checks,
    "not_applicable": [{"property_id": p, "reason": NOT_BUILT} for p in ALL if p not in CHECKS],
    "notes": "Exit codes: 0 held, 1 VIOLATION line, 2 inconclusive (build failure / watchdog). Known findings: /verif/known_findings.json.",
}
json.dump(manifest, open("/verif/MANIFEST.json", "w"), indent=1)
print("checks:", len(checks), "not_applicable:", len(manifest["not_applicable"]))
