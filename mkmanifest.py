#!/usr/bin/env python3
"""Regenerates MANIFEST.json from the table below (kept here so that the manifest stays valid)."""
import json

ALL = ["C%02d" % i for i in range(1, 20)]
# id -> (category, technique, text, note, design_ref)
CHECKS = {
 "C05": ("exploration",
         "model-based differential property testing (proptest): generated straight-line programs vs a from-the-docs instruction-level reference interpreter",
         "Generated instruction sequences (every field/comparison/ext2/u32/stack/push/env instruction, immediate forms, boundary operands, initial depth 0..40) are assembled and executed; the complete final stack (and, where the documentation fixes it, the exact depth) must equal the reference model's; documented failures must fail (assertions with their error code), undocumented ones must not; panics are violations. Held-on-everything-explored, not absence.",
         "Trusted: the reference model transcribed from docs/src/user_docs/assembly, miden-crypto/winter-math from the registry, proptest. Instructions the docs call 'undefined' on an operand class are kept out of that class by construction.",
         "DESIGN.md sec. 3 C05"),
}
NOT_BUILT = "check not built yet in this session (see DESIGN.md sec. 6b staging); will be claimed when its machinery exists"

checks = []
for pid in ALL:
    if pid in CHECKS:
        cat, tech, text, note, ref = CHECKS[pid]
        checks.append({
            "property_id": pid,
            "quick_cmd": "./check %s --tier quick" % pid,
            "thorough_cmd": "./check %s --tier thorough" % pid,
            "evidence_file": "/verif/evidence/%s.json" % pid,
            "replay_cmd_template": "./check %s --replay {path}" % pid,
            "engine": "vharness",
            "level_claimed": {"category": cat, "text": text, "design_ref": ref},
            "level_note": note,
            "technique": tech,
        })
manifest = {
    "version": 1,
    "setup_cmd": "./check --setup",
    "hooks": {
        "guard": "cf_miden_vm_verif",
        "enable": "RUSTFLAGS=--cfg cf_miden_vm_verif (no source in /repo currently tests the flag: every observation goes through public API and the upstream `internals` feature of miden-processor)",
        "baseline_off_cmd": "cd /repo && cargo test --workspace --no-fail-fast --offline",
        "source_commits": [],
        "add_only": True,
    },
    "engines": [
        {"name": "vharness", "path": "/verif/harness",
         "serves_properties": sorted(CHECKS.keys()),
         "kind_free_text": "Rust binary `vcheck` (proptest 1.11 used as a library, 16 workers, fixed seeds from VERIF_SEED, shrinking to replay files); path-depends on the crates in /repo so every run rebuilds from the current working tree; built in two flavours (release, release+debug-assertions+overflow-checks)"},
    ],
    "checks": checks,
    "not_applicable": [{"property_id": p, "reason": NOT_BUILT} for p in ALL if p not in CHECKS],
    "notes": "Exit codes: 0 held, 1 VIOLATION line, 2 inconclusive (build failure / watchdog). Known findings: /verif/known_findings.json.",
}
json.dump(manifest, open("/verif/MANIFEST.json", "w"), indent=1)
print("checks:", len(checks), "not_applicable:", len(manifest["not_applicable"]))
