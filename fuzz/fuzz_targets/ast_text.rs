#![no_main]
//! C10/C11/C19: the bytes are Miden assembly source text. Parsing and assembling must not panic;
//! a parsed program serialises and deserialises to an equal AST (with and without source
//! locations) that compiles to the same MAST root.
use libfuzzer_sys::fuzz_target;
include!("common.rs");

fuzz_target!(|data: &[u8]| {
    let known = setup("C10+C11");
    let Ok(src) = std::str::from_utf8(data) else { return };
    if src.len() > 4000 {
        return;
    }
    if let Err(v) = vharness::props::c10::check_source(src) {
        // the assembler panic on a decorator-only span is C11's listed finding, reached here through
        // the compile step
        let c11_span = v.sig == "C10:compile-panic"
            && v.msg.contains("span_builder.rs:152")
            && known.iter().any(|k| k == "C11:valid-source-panics:assembly/src/assembler/span_builder.rs:152");
        if !known.contains(&v.sig) && !c11_span {
            fail("C10", "ast_text", v);
        }
    }
});
