#![no_main]
//! C05/C06/C07: the bytes are a choice vector for the program generator; the generated program is
//! assembled, executed and compared with the from-the-docs reference model (final stack, final
//! memory of every context, failures, memory history and call frames from the trace).
use libfuzzer_sys::fuzz_target;
include!("common.rs");

fuzz_target!(|data: &[u8]| {
    let known = setup("C07");
    if data.len() < 8 {
        return;
    }
    let choices: Vec<u16> = data.chunks(2).map(|c| u16::from_le_bytes([c[0], *c.get(1).unwrap_or(&0)])).collect();
    match vharness::vm::catch(|| vharness::props::c07::check_model(&choices, false)) {
        Ok(Ok(info)) => {
            for v in info.soft {
                if !known.contains(&v.sig) {
                    fail("C07", "asm_exec", v);
                }
            }
        }
        Ok(Err(v)) => {
            if !known.contains(&v.sig) {
                fail("C07", "asm_exec", v);
            }
        }
        Err(p) => {
            // a panic of the harness itself (generator/model inconsistency): not a verdict about
            // the code under test
            eprintln!("HARNESS PANIC in asm_exec: {p}");
            std::process::exit(2);
        }
    }
});
