#![no_main]
//! C19: first byte selects one of the 12 decoders, the rest is the untrusted input.
//! Oracle (vharness::props::c19::decode): no panic; an accepted value re-encodes to bytes that
//! decode to an equal value; verify() with a decoded statement part or proof does not panic.
use libfuzzer_sys::fuzz_target;
include!("common.rs");

fuzz_target!(|data: &[u8]| {
    let known = setup("C19");
    if data.is_empty() {
        return;
    }
    let kind = data[0] as usize % vharness::props::c19::KINDS.len();
    if let Err(v) = vharness::props::c19::decode(kind, &data[1..]) {
        if !known.contains(&v.sig) {
            fail("C19", "decode_any", v);
        }
    }
});
