#![no_main]
//! C08: the bytes select an operation sequence; the span built from it must obey the documented
//! batching rules and hash to the specified RPO hash (vharness::props::c08::check_ops).
use libfuzzer_sys::fuzz_target;
include!("common.rs");

fuzz_target!(|data: &[u8]| {
    let known = setup("C08");
    if data.is_empty() || data.len() > 1500 {
        return;
    }
    let pal = vharness::props::c08::palette();
    let mut ops = Vec::with_capacity(data.len());
    let mut i = 0;
    while i < data.len() {
        let (op, _) = pal[data[i] as usize % pal.len()];
        i += 1;
        // a push takes its immediate from the following bytes
        if let vharness::props::c08::Operation::Push(_) = op {
            let mut b = [0u8; 8];
            for k in 0..8 {
                b[k] = *data.get(i + k).unwrap_or(&0);
            }
            i += 2;
            ops.push(vharness::props::c08::Operation::Push(vharness::props::c08::Felt::new(u64::from_le_bytes(b) % vharness::fe::P)));
        } else {
            ops.push(op);
        }
    }
    if ops.is_empty() {
        return;
    }
    if let Err(v) = vharness::props::c08::check_ops(&ops) {
        if !known.contains(&v.sig) {
            fail("C08", "span_batch", v);
        }
    }
});
