// shared by the targets (included with `include!`): known-finding tolerance and failure reporting.
// libfuzzer-sys installs a panic hook that aborts; the harness hook (quiet, non-aborting) replaces
// it so that panics inside the code under test are caught by the oracle and classified.

use std::sync::OnceLock;
use vharness::engine::{load_known, Viol};

static KNOWN: OnceLock<Vec<String>> = OnceLock::new();

fn setup(prop: &str) -> &'static Vec<String> {
    KNOWN.get_or_init(|| {
        vharness::vm::quiet_panics();
        let strict = std::env::var("VERIF_STRICT").is_ok();
        if strict {
            vec![]
        } else {
            // `prop` may list several properties separated by '+'
            prop.split('+').flat_map(|p| load_known(p).into_iter().filter(|k| k.status == "known").map(|k| k.sig)).collect()
        }
    })
}

/// a violation that is not a listed known finding: write the replay file and abort so that
/// libFuzzer saves the input
fn fail(prop: &str, target: &str, v: Viol) -> ! {
    let dir = "/verif/replays";
    let _ = std::fs::create_dir_all(dir);
    let path = format!("{}/{}-fuzz-{}-{:08x}.json", dir, prop, target, vharness::engine::fp_str(&v.sig) as u32);
    let body = serde_json::json!({"property": prop, "sub": format!("fuzz-{target}"), "signature": v.sig, "message": v.msg, "case": v.case});
    let _ = std::fs::write(&path, serde_json::to_string_pretty(&body).unwrap());
    eprintln!("FUZZ-VIOLATION property={} signature={} replay={}\n{}", prop, v.sig, path, v.msg);
    std::process::abort();
}
