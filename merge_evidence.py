#!/usr/bin/env python3
"""Merge the evidence written by the flavours (release / chk) of one check run into one file."""
import json, sys
out, ins = sys.argv[1], sys.argv[2:]
docs = [json.load(open(p)) for p in ins]
m = docs[0]
if len(docs) > 1:
    cov = m["coverage"]
    cov["per_flavour"] = {}
    for d in docs:
        c = d["coverage"]
        cov["per_flavour"][c.get("flavour", "?")] = {
            "evaluations": c["evaluations"], "distinct_nontrivial": c["distinct_nontrivial"],
            "wall_s": d["wall_s"], "violations": d.get("violations", 0),
            "known_finding_hits": c.get("known_finding_hits", {}),
        }
    cov["evaluations"] = sum(d["coverage"]["evaluations"] for d in docs)
    # the flavours run the same generated cases: distinct cases are counted once
    cov["distinct_nontrivial"] = max(d["coverage"]["distinct_nontrivial"] for d in docs)
    cov["flavour"] = "+".join(d["coverage"].get("flavour", "?") for d in docs)
    m["wall_s"] = sum(d["wall_s"] for d in docs)
    m["violations"] = sum(d.get("violations", 0) for d in docs)
json.dump(m, open(out, "w"), indent=1)
