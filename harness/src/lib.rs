//! Verification harness for cf/miden-vm: shared machinery and the per-property checks.
//! `vcheck` (src/main.rs) is the command-line entry point; /verif/fuzz uses this library for the
//! coverage-guided targets.

pub mod common;
pub mod diff;
pub mod engine;
pub mod fe;
pub mod gen;
pub mod model;
pub mod props;
pub mod srcgen;
pub mod tracekit;
pub mod vm;
