//! Grammar-based generator of Miden assembly *source text* covering every instruction of the
//! parser's table in every immediate form. The sources are meant to parse and assemble (stack
//! effects are irrelevant for that); they are not meant to execute successfully.

use crate::fe::P;
use crate::gen::Ch;

/// instruction forms that need no context. `{f}` = field element, `{u32}`, `{u16}`, `{u8}`,
/// `{sh}` = 0..31, `{i16}` = 0..15 ... are substituted by the generator.
pub const FORMS: &[&str] = &[
    "assert", "assert.err={u32}", "assertz", "assertz.err={u32}", "assert_eq", "assert_eq.err={u32}", "assert_eqw", "assert_eqw.err={u32}",
    "add", "add.{f}", "add.1", "sub", "sub.{f}", "mul", "mul.{f}", "div", "div.{fnz}", "neg", "inv", "pow2", "exp", "exp.{f}", "exp.u{bits}",
    "ilog2", "not", "and", "or", "xor", "eq", "eq.{f}", "eq.0", "neq", "neq.{f}", "eqw", "lt", "lte", "gt", "gte", "is_odd",
    "ext2add", "ext2sub", "ext2mul", "ext2div", "ext2neg", "ext2inv",
    "u32test", "u32testw", "u32assert", "u32assert.err={u32}", "u32assert2", "u32assert2.err={u32}", "u32assertw", "u32assertw.err={u32}",
    "u32split", "u32cast", "u32wrapping_add", "u32wrapping_add.{u32}", "u32overflowing_add", "u32overflowing_add.{u32}",
    "u32overflowing_add3", "u32wrapping_add3", "u32wrapping_sub", "u32wrapping_sub.{u32}", "u32overflowing_sub", "u32overflowing_sub.{u32}",
    "u32wrapping_mul", "u32wrapping_mul.{u32}", "u32overflowing_mul", "u32overflowing_mul.{u32}", "u32overflowing_madd", "u32wrapping_madd",
    "u32div", "u32div.{u32nz}", "u32mod", "u32mod.{u32nz}", "u32divmod", "u32divmod.{u32nz}",
    "u32and", "u32or", "u32xor", "u32not", "u32shr", "u32shr.{sh}", "u32shl", "u32shl.{sh}", "u32rotr", "u32rotr.{sh}", "u32rotl", "u32rotl.{sh}",
    "u32popcnt", "u32clz", "u32ctz", "u32clo", "u32cto", "u32lt", "u32lte", "u32gt", "u32gte", "u32min", "u32max",
    "drop", "dropw", "padw", "dup", "dup.{i16}", "dupw", "dupw.{i4}", "swap", "swap.{i1_15}", "swapw", "swapw.{i1_3}", "swapdw",
    "movup.{i2_15}", "movupw.{i2_3}", "movdn.{i2_15}", "movdnw.{i2_3}", "cswap", "cswapw", "cdrop", "cdropw",
    "push.{u8}", "push.{u16}", "push.{u32}", "push.{f}", "push.{hex}", "push.{longhex}", "push.{f}.{f}", "push.{u8}.{u8}.{u8}", "push.{u16}.{u16}",
    "push.{u32}.{u32}.{u32}.{u32}.{u32}", "push.{f}.{u8}.{hex}.{u16}", "push.{list16}", "push.{const}",
    "sdepth", "clk", "mem_load", "mem_load.{u32}", "mem_loadw", "mem_loadw.{u32}", "mem_store", "mem_store.{u32}", "mem_storew", "mem_storew.{u32}",
    "mem_load.{const32}", "mem_stream", "adv_pipe", "adv_push.{n16}", "adv_loadw",
    "adv.push_u64div", "adv.push_ext2intt", "adv.push_smtget", "adv.push_smtset", "adv.push_smtpeek", "adv.push_mapval", "adv.push_mapval.{i0_12}",
    "adv.push_mapvaln", "adv.push_mapvaln.{i0_12}", "adv.push_mtnode", "adv.insert_mem", "adv.insert_hdword", "adv.insert_hdword.{u8}",
    "adv.insert_hperm", "adv.push_sig.rpo_falcon512",
    "hash", "hmerge", "hperm", "mtree_get", "mtree_set", "mtree_merge", "mtree_verify", "fri_ext2fold4", "rcomb_base",
    "dynexec", "dyncall", "breakpoint", "debug.stack", "debug.stack.{u8p}", "debug.mem", "debug.mem.{u32p}", "debug.mem.{u8}.{u32big}",
    "emit.{u32}", "trace.{u32}",
];

/// forms valid only inside a procedure with locals: `{loc}` = a valid local index
pub const LOCAL_FORMS: &[&str] = &["locaddr.{loc}", "loc_load.{loc}", "loc_loadw.{loc}", "loc_store.{loc}", "loc_storew.{loc}", "debug.local", "debug.local.{loc}", "debug.local.0.{loc}"];

pub fn is_decorator(form: &str) -> bool {
    form.starts_with("debug.") || form.starts_with("emit.") || form.starts_with("trace.") || form.starts_with("adv.") || form == "breakpoint"
}

pub struct SrcCfg {
    pub max_items: usize,
    pub max_nest: usize,
    pub module: bool,
    pub kernel: bool,
    pub imports: bool,
    pub docs: bool,
}

pub struct Src {
    pub text: String,
    pub forms_used: Vec<&'static str>,
    pub nested: bool,
    pub has_imports: bool,
    pub nprocs: usize,
}

fn fill(form: &str, ch: &mut Ch, nlocals: u16, consts: &[(String, u64)]) -> String {
    let mut out = String::new();
    let mut rest = form;
    while let Some(i) = rest.find('{') {
        out.push_str(&rest[..i]);
        let j = rest[i..].find('}').unwrap() + i;
        let key = &rest[i + 1..j];
        let v = match key {
            "f" => format!("{}", ch.felt()),
            "fnz" => format!("{}", ch.felt().max(1)),
            "u32" => format!("{}", ch.u32v()),
            "u32nz" => format!("{}", ch.u32v().max(1)),
            "u32p" => format!("{}", ch.u32v().max(1)),
            "u32big" => format!("{}", 300 + ch.u32v() / 2),
            "u16" => format!("{}", [0u64, 255, 256, 65535, 1000][ch.pick(5)]),
            "u8" => format!("{}", [0u64, 1, 17, 255][ch.pick(4)]),
            "u8p" => format!("{}", [1u64, 17, 255][ch.pick(3)]),
            "sh" => format!("{}", [0u64, 1, 16, 31][ch.pick(4)]),
            "bits" => format!("{}", [0u64, 1, 31, 32, 63, 64][ch.pick(6)]),
            "i16" => format!("{}", ch.pick(16)),
            "i4" => format!("{}", ch.pick(4)),
            "i1_15" => format!("{}", 1 + ch.pick(15)),
            "i1_3" => format!("{}", 1 + ch.pick(3)),
            "i2_15" => format!("{}", 2 + ch.pick(14)),
            "i2_3" => format!("{}", 2 + ch.pick(2)),
            "i0_12" => format!("{}", ch.pick(13)),
            "n16" => format!("{}", 1 + ch.pick(16)),
            "hex" => {
                let v = ch.felt();
                let s = format!("{:x}", v);
                format!("0x{}", if s.len() % 2 == 1 { format!("0{s}") } else { s })
            }
            "longhex" => {
                let mut s = String::from("0x");
                for _ in 0..4 {
                    for b in (ch.felt() % P).to_le_bytes() {
                        s.push_str(&format!("{:02x}", b));
                    }
                }
                s
            }
            "list16" => (0..16).map(|_| format!("{}", ch.next() % 300)).collect::<Vec<_>>().join("."),
            "const" => {
                if consts.is_empty() {
                    "7".to_string()
                } else {
                    consts[ch.pick(consts.len())].0.clone()
                }
            }
            "const32" => match consts.iter().find(|c| c.1 < (1 << 32)) {
                Some(c) => c.0.clone(),
                None => "9".to_string(),
            },
            "loc" => format!("{}", ch.pick(nlocals.max(1) as usize)),
            other => panic!("unknown placeholder {other}"),
        };
        out.push_str(&v);
        rest = &rest[j + 1..];
    }
    out.push_str(rest);
    out
}

struct G<'a, 'b> {
    ch: &'b mut Ch<'a>,
    cfg: &'b SrcCfg,
    used: Vec<&'static str>,
    consts: Vec<(String, u64)>,
    nested: bool,
    budget: usize,
    /// names of procedures that may be invoked from here (defined earlier)
    procs: Vec<String>,
    imported: Vec<String>,
    kernel_procs: Vec<String>,
    next_form: usize,
}

impl<'a, 'b> G<'a, 'b> {
    fn body(&mut self, out: &mut String, nest: usize, nlocals: u16, in_kernel: bool, ind: &str) {
        let n = 1 + self.ch.pick(7);
        for _ in 0..n {
            if self.budget == 0 {
                break;
            }
            self.budget -= 1;
            let r = self.ch.pick(100);
            if r < 62 {
                // walk the table round-robin so that every form shows up early, then randomly
                let f = if self.next_form < FORMS.len() {
                    self.next_form += 1;
                    FORMS[self.next_form - 1]
                } else {
                    FORMS[self.ch.pick(FORMS.len())]
                };
                self.used.push(f);
                out.push_str(ind);
                if is_decorator(f) {
                    // a span holding decorators only makes the assembler of the pinned tree panic
                    // (finding C11:decorator-only-span); give the decorator an operation to sit on
                    out.push_str("push.0 drop ");
                }
                out.push_str(&fill(f, self.ch, nlocals, &self.consts));
                out.push('\n');
            } else if r < 70 && nlocals > 0 {
                let f = LOCAL_FORMS[self.ch.pick(LOCAL_FORMS.len())];
                self.used.push(f);
                out.push_str(ind);
                if is_decorator(f) {
                    out.push_str("push.0 drop ");
                }
                out.push_str(&fill(f, self.ch, nlocals, &self.consts));
                out.push('\n');
            } else if r < 76 && in_kernel {
                self.used.push("caller");
                out.push_str(&format!("{ind}caller\n"));
            } else if r < 88 && nest < self.cfg.max_nest {
                self.nested = true;
                let k = self.ch.pick(4);
                let ind2 = format!("{ind}    ");
                match k {
                    0 => {
                        out.push_str(&format!("{ind}if.true\n"));
                        self.body(out, nest + 1, nlocals, in_kernel, &ind2);
                        if self.ch.chance(2, 3) {
                            out.push_str(&format!("{ind}else\n"));
                            self.body(out, nest + 1, nlocals, in_kernel, &ind2);
                        }
                        out.push_str(&format!("{ind}end\n"));
                    }
                    1 => {
                        out.push_str(&format!("{ind}while.true\n"));
                        self.body(out, nest + 1, nlocals, in_kernel, &ind2);
                        out.push_str(&format!("{ind}end\n"));
                    }
                    _ if nest == 0 && self.ch.chance(1, 12) => {
                        // counts around the widths an encoder might use for them, on a tiny body
                        let cnt = [255u32, 256, 65535, 65536, 65537, 70001][self.ch.pick(6)];
                        out.push_str(&format!("{ind}repeat.{cnt}\n{ind2}push.1 drop\n{ind}end\n"));
                    }
                    _ => {
                        let cnt = if self.ch.chance(1, 4) && !self.consts.is_empty() && self.consts[0].1 > 0 && self.consts[0].1 < 20 {
                            self.consts[0].0.clone()
                        } else {
                            format!("{}", 1 + self.ch.pick(5))
                        };
                        out.push_str(&format!("{ind}repeat.{cnt}\n"));
                        self.body(out, nest + 1, nlocals, in_kernel, &ind2);
                        out.push_str(&format!("{ind}end\n"));
                    }
                }
            } else if r < 96 {
                // procedure invocation
                let mut cands: Vec<String> = vec![];
                for p in &self.procs {
                    cands.push(format!("exec.{p}"));
                    cands.push(format!("procref.{p}"));
                    if !in_kernel {
                        cands.push(format!("call.{p}"));
                    }
                }
                for p in &self.imported {
                    cands.push(format!("exec.{p}"));
                    cands.push(format!("procref.{p}"));
                    if !in_kernel {
                        cands.push(format!("call.{p}"));
                    }
                }
                if !in_kernel {
                    for p in &self.kernel_procs {
                        cands.push(format!("syscall.{p}"));
                    }
                }
                if !cands.is_empty() {
                    let c = cands[self.ch.pick(cands.len())].clone();
                    out.push_str(&format!("{ind}{c}\n"));
                    self.used.push(match &c[..4] {
                        "exec" => "exec",
                        "call" => "call",
                        "sysc" => "syscall",
                        _ => "procref",
                    });
                }
            } else if self.ch.chance(1, 2) {
                out.push_str(&format!("{ind}# a comment {}\n", self.ch.next()));
            }
        }
    }
}

/// Generate a program (`module = false`) or a library module / kernel (`module = true`).
pub fn generate(choices: &[u16], cfg: &SrcCfg, kernel_procs: &[String], skip_table_walk: bool) -> Src {
    let mut ch = Ch::new(choices);
    let mut text = String::new();
    let mut g = G { ch: &mut ch, cfg, used: vec![], consts: vec![], nested: false, budget: cfg.max_items, procs: vec![], imported: vec![], kernel_procs: kernel_procs.to_vec(), next_form: if skip_table_walk { usize::MAX } else { 0 } };
    if cfg.docs && cfg.module && g.ch.chance(1, 2) {
        text.push_str("#! module documentation line one\n#! line two\n\n");
    }
    let mut has_imports = false;
    if cfg.imports && g.ch.chance(2, 3) {
        has_imports = true;
        text.push_str("use.std::math::u64\n");
        g.imported.push("u64::wrapping_add".into());
        g.imported.push("u64::lt".into());
        if g.ch.chance(1, 2) {
            text.push_str("use.std::crypto::hashes::native->nat\n");
            g.imported.push("nat::state_to_digest".into());
        }
        if g.ch.chance(1, 3) {
            // an import that is never used
            text.push_str("use.std::sys\n");
        }
    }
    // constants
    let nc = g.ch.pick(4);
    for i in 0..nc {
        let v = [3u64, 12, 65535, 4294967295, 70000][g.ch.pick(5)];
        let name = format!("CONST_{}", i);
        let expr = if i > 0 && g.ch.chance(1, 3) { format!("{}+CONST_0*2", v % 1000) } else { format!("{}", v) };
        let val = if expr.contains('+') { (v % 1000) + g.consts[0].1 * 2 } else { v };
        text.push_str(&format!("const.{}={}\n", name, expr));
        g.consts.push((name, val));
    }
    if cfg.module && has_imports && g.ch.chance(1, 2) && !cfg.kernel {
        text.push_str("export.u64::wrapping_mul->mul_again\n");
    }
    let nprocs = if cfg.module { 1 + g.ch.pick(5) } else { g.ch.pick(5) };
    for i in 0..nprocs {
        let nloc: u16 = [0, 0, 1, 2, 7][g.ch.pick(5)];
        let export = cfg.module && (i == nprocs - 1 || g.ch.chance(1, 2));
        let name = format!("{}{}", if export { "ex" } else { "pr" }, i);
        if cfg.docs && g.ch.chance(1, 3) {
            text.push_str(&format!("#! documentation of {name}\n#! second line\n"));
        }
        let kw = if export { "export" } else { "proc" };
        if nloc > 0 || g.ch.chance(1, 4) {
            text.push_str(&format!("{kw}.{name}.{nloc}\n"));
        } else {
            text.push_str(&format!("{kw}.{name}\n"));
        }
        let before = text.len();
        g.body(&mut text, 0, nloc, cfg.kernel, "    ");
        if text.len() == before {
            text.push_str("    push.0 drop\n");
        }
        text.push_str("end\n\n");
        g.procs.push(name);
    }
    if !cfg.module {
        text.push_str("begin\n");
        let before = text.len();
        g.body(&mut text, 0, 0, false, "    ");
        if text.len() == before {
            text.push_str("    push.0 drop\n");
        }
        text.push_str("end\n");
    }
    Src { text, forms_used: g.used, nested: g.nested, has_imports, nprocs }
}
