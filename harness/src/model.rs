//! Instruction-level reference model of Miden assembly, written from the user documentation
//! (docs/src/user_docs/assembly/*.md). It knows nothing about VM operations, cycles, helper
//! registers or traces. Values are canonical field elements as u64; values >= P are *symbolic*
//! placeholders (procedure MAST roots) that may only be moved around.

use crate::fe::{self, P};
use std::collections::{BTreeMap, BTreeSet, VecDeque};
use vm_core::crypto::hash::Rpo256;
use vm_core::crypto::merkle::{MerkleStore, NodeIndex};
use vm_core::{Felt, StarkField};

pub const LOCAL_OFF: u64 = 1; // observed: local i of a frame with base b lives at b + 1 + i
pub const FMP_MIN: u64 = 1 << 30;
pub const SYSCALL_FMP_MIN: u64 = 1 << 31;
pub const SYM_BASE: u64 = P;
pub const COND_MARK: u64 = 0xC0DE;

#[derive(Clone, Copy, Debug, PartialEq, Eq, Hash, PartialOrd, Ord)]
pub enum Op {
    // field
    Assert, Assertz, AssertEq, AssertEqw,
    Add, Sub, Mul, Div, Neg, Inv, Pow2, Exp, ExpU, ILog2, Not, And, Or, Xor,
    Eq, Neq, Eqw, Lt, Lte, Gt, Gte, IsOdd,
    Ext2Add, Ext2Sub, Ext2Mul, Ext2Neg, Ext2Inv, Ext2Div,
    // u32
    U32Test, U32Testw, U32Assert, U32Assert2, U32Assertw, U32Cast, U32Split,
    U32OverflowingAdd, U32WrappingAdd, U32OverflowingAdd3, U32WrappingAdd3,
    U32OverflowingSub, U32WrappingSub, U32OverflowingMul, U32WrappingMul,
    U32OverflowingMadd, U32WrappingMadd, U32Div, U32Mod, U32DivMod,
    U32And, U32Or, U32Xor, U32Not, U32Shl, U32Shr, U32Rotl, U32Rotr,
    U32Popcnt, U32Clz, U32Ctz, U32Clo, U32Cto,
    U32Lt, U32Lte, U32Gt, U32Gte, U32Min, U32Max,
    // stack
    Drop, Dropw, Padw, Dup, Dupw, Swap, Swapw, Swapdw, Movup, Movupw, Movdn, Movdnw,
    Cswap, Cswapw, Cdrop, Cdropw,
    // io
    Push, Sdepth, ClkDrop, Caller, Locaddr,
    MemLoad, MemLoadw, MemStore, MemStorew, MemStream,
    LocLoad, LocLoadw, LocStore, LocStorew,
    AdvPush, AdvLoadw, AdvPipe,
    // crypto
    Hash, Hmerge, Hperm, MtreeGet, MtreeSet, MtreeMerge, MtreeVerify,
    // advice injectors with a model-visible effect
    AdvPushMapval, AdvPushMapvaln, AdvPushU64Div, AdvPushMtnode, AdvInsertMem, AdvInsertHdword, AdvInsertHperm,
    // no effect on VM state (debug/emit/trace decorators, comments)
    Nop,
}

#[derive(Clone, Debug, PartialEq, Eq)]
pub struct Ins {
    pub op: Op,
    pub imm: Option<u64>,
    pub vals: Vec<u64>,
    pub txt: String,
}

impl Ins {
    pub fn new(op: Op, imm: Option<u64>, txt: impl Into<String>) -> Self {
        Ins { op, imm, vals: vec![], txt: txt.into() }
    }
}

#[derive(Clone, Debug, PartialEq, Eq)]
pub enum Node {
    I(Ins),
    If(Vec<Node>, Vec<Node>),
    While(Vec<Node>),
    Repeat(u32, Vec<Node>),
    Exec(usize),
    Call(usize),
    Syscall(usize),
    /// `procref.f dynexec` — callee sees the four root elements on top
    DynExec(usize),
    /// `procref.f dyncall`
    DynCall(usize),
    /// `procref.f` — pushes the (symbolic) root
    ProcRef(usize),
}

#[derive(Clone, Debug, PartialEq, Eq, Default)]
pub struct Proc {
    pub name: String,
    pub locals: u16,
    pub body: Vec<Node>,
}

pub const KPROC: usize = 1000; // kernel procedure k is referred to as index KPROC + k

#[derive(Clone, Debug, PartialEq, Eq, Default)]
pub struct Prog {
    pub consts: Vec<(String, String)>,
    pub procs: Vec<Proc>,
    pub kprocs: Vec<Proc>,
    pub main: Vec<Node>,
}

impl Prog {
    pub fn proc(&self, idx: usize) -> &Proc {
        if idx >= KPROC {
            &self.kprocs[idx - KPROC]
        } else {
            &self.procs[idx]
        }
    }
}

#[derive(Clone, Copy, Debug, PartialEq, Eq, Hash, PartialOrd, Ord)]
pub enum Fail {
    Assert(u32),
    DivZero,
    NotBinary,
    NotU32,
    OutOfRange,
    AddrOob,
    AdviceEmpty,
    DepthOnReturn,
    Merkle,
    MapKey,
}

#[derive(Clone, Debug, PartialEq, Eq)]
pub enum MErr {
    /// the documentation says execution fails here
    Fail(Fail),
    /// the documentation leaves the behaviour undefined / the model does not cover it: generators
    /// must stay away
    Undefined(&'static str),
    /// step budget exhausted
    Budget,
}

#[derive(Clone, Debug)]
struct Saved {
    owner_dyn: bool,
    caller_dyn: bool,
    hidden: Vec<u64>,
    ctx: u32,
    fmp: u64,
    owner: Option<usize>,
    in_syscall: bool,
    caller: Option<usize>,
    init_locals: Vec<BTreeSet<u64>>,
}

#[derive(Clone, Debug)]
pub struct Model {
    pub st: VecDeque<u64>,
    pub mem: BTreeMap<(u32, u64), [u64; 4]>,
    pub ctx: u32,
    pub next_ctx: u32,
    pub fmp: u64,
    pub adv: Vec<u64>,
    pub adv_pos: usize,
    /// when true, reads past the end of the advice tape extend it with `adv_next`/generated values
    pub adv_on_demand: bool,
    pub adv_force: Option<u64>,
    pub adv_rng: u64,
    pub adv_map: BTreeMap<[u64; 4], Vec<u64>>,
    pub store: MerkleStore,
    /// extra items pushed onto the advice stack by injectors (top is the end)
    pub adv_pushed: Vec<u64>,
    /// values handed out (front first) for loop-condition reads marked with COND_MARK
    pub cond_script: Vec<u64>,
    owner: Option<usize>,
    /// the current context was entered through dyncall
    owner_dyn: bool,
    caller_dyn: bool,
    in_syscall: bool,
    caller: Option<usize>,
    saved: Vec<Saved>,
    /// addresses of locals initialised in each live frame of the current context
    init_locals: Vec<BTreeSet<u64>>,
    frames: Vec<(u64, u16)>,
    pub steps: usize,
    pub max_steps: usize,
    pub max_depth_seen: usize,
    pub ctx_switches: usize,
    pub ops_seen: BTreeSet<Op>,
    pub count_ops: bool,
    /// lowest stack length reached inside the current instruction
    min_len: usize,
    /// The user documentation defines instructions, not VM operations. A multi-cycle instruction
    /// that consumes items while fewer than 16 + k are present and then produces items may or may
    /// not leave additional zeros at the bottom of the stack (e.g. `mul.0` at depth 16 ends at depth
    /// 17). From then on the model knows the stack only up to trailing zeros.
    pub uncertain: bool,
}

type R = Result<(), MErr>;

fn is_sym(v: u64) -> bool {
    v >= P
}

impl Model {
    pub fn new(inputs: &[u64]) -> Self {
        // inputs[0] is the top of the stack
        let mut st: VecDeque<u64> = inputs.iter().copied().collect();
        while st.len() < 16 {
            st.push_back(0);
        }
        Model {
            st,
            mem: BTreeMap::new(),
            ctx: 0,
            next_ctx: 1,
            fmp: FMP_MIN,
            adv: vec![],
            adv_pos: 0,
            adv_on_demand: false,
            adv_force: None,
            adv_rng: 0x9E3779B97F4A7C15,
            adv_map: BTreeMap::new(),
            store: MerkleStore::new(),
            adv_pushed: vec![],
            cond_script: vec![],
            owner: None,
            owner_dyn: false,
            caller_dyn: false,
            in_syscall: false,
            caller: None,
            saved: vec![],
            init_locals: vec![],
            frames: vec![],
            steps: 0,
            max_steps: 200_000,
            max_depth_seen: 16,
            ctx_switches: 0,
            ops_seen: BTreeSet::new(),
            count_ops: false,
            min_len: 16,
            uncertain: false,
        }
    }

    // ---- stack primitives ------------------------------------------------------------------
    pub fn depth(&self) -> usize {
        self.st.len()
    }
    pub fn get(&self, i: usize) -> u64 {
        self.st.get(i).copied().unwrap_or(0)
    }
    fn set(&mut self, i: usize, v: u64) {
        while self.st.len() <= i {
            self.st.push_back(0);
        }
        self.st[i] = v;
    }
    /// the depth never drops below 16: zeros are shifted in (applied once per instruction: the
    /// depth after an instruction that pops k and pushes j items is max(16, d - k + j))
    pub fn pad(&mut self) {
        while self.st.len() < 16 {
            self.st.push_back(0);
        }
    }
    pub fn push(&mut self, v: u64) {
        self.st.push_front(v);
        if self.st.len() > self.max_depth_seen {
            self.max_depth_seen = self.st.len();
        }
    }
    pub fn pop(&mut self) -> u64 {
        let v = self.st.pop_front().unwrap_or(0);
        if self.st.len() < self.min_len {
            self.min_len = self.st.len();
        }
        v
    }
    /// declare that the instruction consumes the top n items (for operations modelled in place)
    fn touch(&mut self, n: usize) {
        let l = self.st.len().saturating_sub(n);
        if l < self.min_len {
            self.min_len = l;
        }
    }
    /// value that must be a concrete field element
    fn popc(&mut self) -> Result<u64, MErr> {
        if is_sym(self.get(0)) {
            return Err(MErr::Undefined("arithmetic on symbolic value"));
        }
        Ok(self.pop())
    }
    fn need_concrete(&self, n: usize) -> R {
        for i in 0..n {
            if is_sym(self.get(i)) {
                return Err(MErr::Undefined("arithmetic on symbolic value"));
            }
        }
        Ok(())
    }
    fn word_at(&self, pos: usize) -> [u64; 4] {
        // word elements [w0,w1,w2,w3]: w3 is the shallowest (pos), w0 the deepest (pos+3)
        [self.get(pos + 3), self.get(pos + 2), self.get(pos + 1), self.get(pos)]
    }
    fn set_word_at(&mut self, pos: usize, w: [u64; 4]) {
        self.set(pos + 3, w[0]);
        self.set(pos + 2, w[1]);
        self.set(pos + 1, w[2]);
        self.set(pos, w[3]);
    }
    fn push_word(&mut self, w: [u64; 4]) {
        for v in w {
            self.push(v);
        }
    }
    pub fn final_stack(&self) -> Vec<u64> {
        self.st.iter().copied().collect()
    }

    // ---- advice ----------------------------------------------------------------------------
    fn adv_gen(&mut self) -> u64 {
        if let Some(v) = self.adv_force.take() {
            return v;
        }
        self.adv_rng = self.adv_rng.wrapping_mul(6364136223846793005).wrapping_add(1442695040888963407);
        let r = self.adv_rng >> 33;
        match r % 4 {
            0 => fe::BOUNDARY[(r / 4) as usize % fe::BOUNDARY.len()],
            1 => fe::BOUNDARY_U32[(r / 4) as usize % fe::BOUNDARY_U32.len()],
            2 => (r / 4) % 2,
            _ => (self.adv_rng ^ (self.adv_rng << 17)) % P,
        }
    }
    fn adv_pop(&mut self) -> Result<u64, MErr> {
        if let Some(v) = self.adv_pushed.pop() {
            return Ok(v);
        }
        if self.adv_pos < self.adv.len() {
            self.adv_pos += 1;
            return Ok(self.adv[self.adv_pos - 1]);
        }
        if self.adv_on_demand {
            let v = self.adv_gen();
            self.adv.push(v);
            self.adv_pos += 1;
            return Ok(v);
        }
        Err(MErr::Fail(Fail::AdviceEmpty))
    }
    /// number of advice elements still available (without on-demand extension)
    pub fn adv_remaining(&self) -> usize {
        self.adv_pushed.len() + self.adv.len() - self.adv_pos
    }

    // ---- memory ----------------------------------------------------------------------------
    fn addr_ok(a: u64) -> Result<u64, MErr> {
        if is_sym(a) {
            return Err(MErr::Undefined("symbolic address"));
        }
        if a >= (1u64 << 32) {
            Err(MErr::Fail(Fail::AddrOob))
        } else {
            Ok(a)
        }
    }
    pub fn mem_get(&self, ctx: u32, a: u64) -> [u64; 4] {
        self.mem.get(&(ctx, a)).copied().unwrap_or([0; 4])
    }
    fn local_addr(&self, idx: u64) -> Result<u64, MErr> {
        let (base, n) = *self.frames.last().ok_or(MErr::Undefined("local access outside procedure"))?;
        if idx >= n as u64 {
            return Err(MErr::Undefined("local index out of range (assembly error)"));
        }
        Ok(base + LOCAL_OFF + idx)
    }

    // ---- program interpretation --------------------------------------------------------------
    pub fn run(&mut self, prog: &Prog) -> R {
        self.run_nodes(prog, &prog.main)
    }

    pub fn run_nodes(&mut self, prog: &Prog, nodes: &[Node]) -> R {
        for n in nodes {
            self.run_node(prog, n)?;
        }
        Ok(())
    }

    fn cond(&mut self) -> Result<bool, MErr> {
        let c = self.popc()?;
        self.pad();
        match c {
            0 => Ok(false),
            1 => Ok(true),
            _ => Err(MErr::Fail(Fail::NotBinary)),
        }
    }

    pub fn run_node(&mut self, prog: &Prog, n: &Node) -> R {
        self.steps += 1;
        if self.steps > self.max_steps {
            return Err(MErr::Budget);
        }
        match n {
            Node::I(i) => self.step(i),
            Node::If(t, f) => {
                if self.cond()? {
                    self.run_nodes(prog, t)
                } else {
                    self.run_nodes(prog, f)
                }
            }
            Node::While(b) => {
                while self.cond()? {
                    self.run_nodes(prog, b)?;
                    self.steps += 1;
                    if self.steps > self.max_steps {
                        return Err(MErr::Budget);
                    }
                }
                Ok(())
            }
            Node::Repeat(k, b) => {
                for _ in 0..*k {
                    self.run_nodes(prog, b)?;
                }
                Ok(())
            }
            Node::Exec(p) => self.exec_proc(prog, *p),
            Node::Call(p) => self.call_proc(prog, *p, false, false),
            Node::Syscall(p) => self.call_proc(prog, *p, true, false),
            Node::ProcRef(p) => {
                self.push_sym(*p);
                Ok(())
            }
            Node::DynExec(p) => {
                self.push_sym(*p);
                self.exec_proc(prog, *p)
            }
            Node::DynCall(p) => {
                self.push_sym(*p);
                self.call_proc(prog, *p, false, true)
            }
        }
    }

    pub fn push_sym(&mut self, p: usize) {
        // digest [d0,d1,d2,d3] is pushed as a word: d3 ends up on top
        for k in 0..4 {
            self.push(SYM_BASE + (p as u64) * 4 + k);
        }
    }

    /// generator helper: position a scratch model inside a procedure frame
    pub fn enter_frame(&mut self, n: u16) {
        self.frames.push((self.fmp, n));
        self.init_locals.push(BTreeSet::new());
        self.fmp += n as u64;
    }
    /// generator helper: position a scratch model inside a new call / syscall context
    pub fn begin_call(&mut self, p: usize, syscall: bool) {
        self.st.truncate(16);
        self.uncertain = false;
        self.frames.clear();
        self.init_locals.clear();
        if syscall {
            self.caller = self.owner;
            self.in_syscall = true;
            self.ctx = 0;
            self.fmp = SYSCALL_FMP_MIN;
        } else {
            self.ctx = self.next_ctx;
            self.next_ctx += 1;
            self.fmp = FMP_MIN;
            self.owner = Some(p);
            self.in_syscall = false;
            self.caller = None;
        }
    }

    fn exec_proc(&mut self, prog: &Prog, p: usize) -> R {
        let pr = prog.proc(p);
        let n = pr.locals;
        if n > 0 {
            self.frames.push((self.fmp, n));
            self.init_locals.push(BTreeSet::new());
            self.fmp += n as u64;
        } else {
            // a procedure without locals has no frame of its own: local instructions are an
            // assembly error there; push a zero-size frame so that local_addr rejects them
            self.frames.push((self.fmp, 0));
            self.init_locals.push(BTreeSet::new());
        }
        let r = self.run_nodes(prog, &pr.body);
        self.frames.pop();
        self.init_locals.pop();
        if n > 0 {
            self.fmp -= n as u64;
        }
        r
    }

    fn call_proc(&mut self, prog: &Prog, p: usize, syscall: bool, is_dyn: bool) -> R {
        self.ctx_switches += 1;
        let hidden: Vec<u64> = self.st.drain(16..).collect();
        let saved = Saved {
            owner_dyn: self.owner_dyn,
            caller_dyn: self.caller_dyn,
            hidden,
            ctx: self.ctx,
            fmp: self.fmp,
            owner: self.owner,
            in_syscall: self.in_syscall,
            caller: self.caller,
            init_locals: std::mem::take(&mut self.init_locals),
        };
        let saved_frames = std::mem::take(&mut self.frames);
        self.saved.push(saved);
        let saved_uncertain = self.uncertain;
        self.uncertain = false; // the callee starts with exactly 16 visible items
        if syscall {
            self.caller = self.owner;
            self.caller_dyn = self.owner_dyn;
            self.in_syscall = true;
            self.ctx = 0;
            self.fmp = SYSCALL_FMP_MIN;
        } else {
            self.ctx = self.next_ctx;
            self.next_ctx += 1;
            self.fmp = FMP_MIN;
            self.owner = Some(p);
            self.owner_dyn = is_dyn;
            self.in_syscall = false;
            self.caller = None;
        }
        let r = self.exec_proc(prog, p);
        r?;
        if self.uncertain {
            return Err(MErr::Undefined("depth at return known only up to trailing zeros"));
        }
        self.uncertain = saved_uncertain;
        if self.st.len() != 16 {
            return Err(MErr::Fail(Fail::DepthOnReturn));
        }
        let s = self.saved.pop().unwrap();
        self.st.extend(s.hidden);
        self.ctx = s.ctx;
        self.fmp = s.fmp;
        self.owner = s.owner;
        self.owner_dyn = s.owner_dyn;
        self.caller_dyn = s.caller_dyn;
        self.in_syscall = s.in_syscall;
        self.caller = s.caller;
        self.init_locals = s.init_locals;
        self.frames = saved_frames;
        Ok(())
    }

    // ---- single instruction ------------------------------------------------------------------
    fn bin(&mut self, i: &Ins) -> Result<(u64, u64), MErr> {
        // returns (a, b) for stack [b, a, ...] or for the immediate form b = imm
        if let Some(b) = i.imm {
            self.need_concrete(1)?;
            let a = self.pop();
            Ok((a, b))
        } else {
            self.need_concrete(2)?;
            let b = self.pop();
            let a = self.pop();
            Ok((a, b))
        }
    }
    fn u32bin(&mut self, i: &Ins) -> Result<(u64, u64), MErr> {
        let top = if i.imm.is_some() { 1 } else { 2 };
        self.need_concrete(top)?;
        let b = i.imm.unwrap_or(self.get(0));
        let a = if i.imm.is_some() { self.get(0) } else { self.get(1) };
        if a >> 32 != 0 || b >> 32 != 0 {
            return Err(MErr::Undefined("u32 operation on non-u32 operand"));
        }
        for _ in 0..top {
            self.pop();
        }
        Ok((a, b))
    }
    fn u32checked(&mut self, n: usize) -> R {
        self.need_concrete(n)?;
        for k in 0..n {
            if self.get(k) >> 32 != 0 {
                return Err(MErr::Fail(Fail::NotU32));
            }
        }
        Ok(())
    }

    pub fn step(&mut self, i: &Ins) -> R {
        self.min_len = self.st.len();
        let r = self.step_inner(i);
        if self.min_len < 16 && self.st.len() > self.min_len && !single_cycle(i) {
            self.uncertain = true;
        }
        self.pad();
        r
    }

    fn step_inner(&mut self, i: &Ins) -> R {
        if self.count_ops {
            self.ops_seen.insert(i.op);
        }
        use Op::*;
        let code = i.imm.unwrap_or(0) as u32;
        match i.op {
            Nop => {}
            Assert => {
                if self.popc()? != 1 {
                    return Err(MErr::Fail(Fail::Assert(code)));
                }
            }
            Assertz => {
                if self.popc()? != 0 {
                    return Err(MErr::Fail(Fail::Assert(code)));
                }
            }
            AssertEq => {
                self.need_concrete(2)?;
                let b = self.pop();
                let a = self.pop();
                if a != b {
                    return Err(MErr::Fail(Fail::Assert(code)));
                }
            }
            AssertEqw => {
                self.need_concrete(8)?;
                let b = self.word_at(0);
                let a = self.word_at(4);
                if a != b {
                    return Err(MErr::Fail(Fail::Assert(code)));
                }
                for _ in 0..8 {
                    self.pop();
                }
            }
            Add => {
                let (a, b) = self.bin(i)?;
                self.push(fe::add(a, b));
            }
            Sub => {
                let (a, b) = self.bin(i)?;
                self.push(fe::sub(a, b));
            }
            Mul => {
                let (a, b) = self.bin(i)?;
                self.push(fe::mul(a, b));
            }
            Div => {
                if i.imm == Some(0) {
                    return Err(MErr::Undefined("div.0 is an assembly error"));
                }
                let top = if i.imm.is_some() { 0 } else { self.get(0) };
                if i.imm.is_none() {
                    self.need_concrete(2)?;
                    if top == 0 {
                        return Err(MErr::Fail(Fail::DivZero));
                    }
                }
                let (a, b) = self.bin(i)?;
                self.push(fe::mul(a, fe::inv(b)));
            }
            Neg => {
                let a = self.popc()?;
                self.push(fe::neg(a));
            }
            Inv => {
                self.need_concrete(1)?;
                if self.get(0) == 0 {
                    return Err(MErr::Fail(Fail::DivZero));
                }
                let a = self.pop();
                self.push(fe::inv(a));
            }
            Pow2 => {
                self.need_concrete(1)?;
                if self.get(0) > 63 {
                    return Err(MErr::Fail(Fail::OutOfRange));
                }
                let a = self.pop();
                self.push(1u64 << a);
            }
            Exp => {
                let (a, b) = self.bin(i)?;
                self.push(fe::pow(a, b));
            }
            ExpU => {
                let bits = i.imm.unwrap();
                self.need_concrete(2)?;
                let b = self.get(0);
                if bits > 64 {
                    return Err(MErr::Undefined("exp.uXX with XX > 64 is an assembly error"));
                }
                if bits < 64 && b >> bits != 0 {
                    return Err(MErr::Undefined("exp.uXX with exponent wider than XX bits"));
                }
                self.pop();
                let a = self.pop();
                self.push(fe::pow(a, b));
            }
            ILog2 => {
                self.need_concrete(1)?;
                if self.get(0) == 0 {
                    return Err(MErr::Fail(Fail::OutOfRange));
                }
                let a = self.pop();
                self.push(63 - a.leading_zeros() as u64);
            }
            Not => {
                self.need_concrete(1)?;
                if self.get(0) > 1 {
                    return Err(MErr::Fail(Fail::NotBinary));
                }
                let a = self.pop();
                self.push(1 - a);
            }
            And | Or | Xor => {
                self.need_concrete(2)?;
                if self.get(0) > 1 || self.get(1) > 1 {
                    return Err(MErr::Fail(Fail::NotBinary));
                }
                let b = self.pop();
                let a = self.pop();
                self.push(match i.op {
                    And => a & b,
                    Or => a | b,
                    _ => a ^ b,
                });
            }
            Eq => {
                let (a, b) = self.bin(i)?;
                self.push((a == b) as u64);
            }
            Neq => {
                let (a, b) = self.bin(i)?;
                self.push((a != b) as u64);
            }
            Eqw => {
                self.touch(8);
                self.need_concrete(8)?;
                let a = self.word_at(0);
                let b = self.word_at(4);
                self.push((a == b) as u64);
            }
            Lt | Lte | Gt | Gte => {
                self.need_concrete(2)?;
                let b = self.pop();
                let a = self.pop();
                self.push(match i.op {
                    Lt => a < b,
                    Lte => a <= b,
                    Gt => a > b,
                    _ => a >= b,
                } as u64);
            }
            IsOdd => {
                let a = self.popc()?;
                self.push(a & 1);
            }
            Ext2Add | Ext2Sub | Ext2Mul | Ext2Div => {
                self.need_concrete(4)?;
                let (b1, b0, a1, a0) = (self.get(0), self.get(1), self.get(2), self.get(3));
                if i.op == Ext2Div && b0 == 0 && b1 == 0 {
                    return Err(MErr::Fail(Fail::DivZero));
                }
                for _ in 0..4 {
                    self.pop();
                }
                let (c0, c1) = match i.op {
                    Ext2Add => (fe::add(a0, b0), fe::add(a1, b1)),
                    Ext2Sub => (fe::sub(a0, b0), fe::sub(a1, b1)),
                    Ext2Mul => fe::ext2_mul((a0, a1), (b0, b1)),
                    _ => fe::ext2_mul((a0, a1), fe::ext2_inv((b0, b1))),
                };
                self.push(c0);
                self.push(c1);
            }
            Ext2Neg => {
                self.need_concrete(2)?;
                let a1 = self.pop();
                let a0 = self.pop();
                self.push(fe::neg(a0));
                self.push(fe::neg(a1));
            }
            Ext2Inv => {
                self.need_concrete(2)?;
                if self.get(0) == 0 && self.get(1) == 0 {
                    return Err(MErr::Fail(Fail::DivZero));
                }
                let a1 = self.pop();
                let a0 = self.pop();
                let (c0, c1) = fe::ext2_inv((a0, a1));
                self.push(c0);
                self.push(c1);
            }
            // ---- u32 -------------------------------------------------------------------------
            U32Test => {
                self.touch(1);
                self.need_concrete(1)?;
                let a = self.get(0);
                self.push((a >> 32 == 0) as u64);
            }
            U32Testw => {
                self.touch(4);
                self.need_concrete(4)?;
                let ok = (0..4).all(|k| self.get(k) >> 32 == 0);
                self.push(ok as u64);
            }
            U32Assert => {
                self.touch(1);
                self.u32checked(1).map_err(|e| Self::with_code(e, code))?;
            }
            U32Assert2 => {
                self.u32checked(2).map_err(|e| Self::with_code(e, code))?;
            }
            U32Assertw => {
                self.touch(4);
                self.u32checked(4).map_err(|e| Self::with_code(e, code))?;
            }
            U32Cast => {
                let a = self.popc()?;
                self.push(a & 0xFFFF_FFFF);
            }
            U32Split => {
                let a = self.popc()?;
                self.push(a & 0xFFFF_FFFF);
                self.push(a >> 32);
            }
            U32OverflowingAdd | U32WrappingAdd => {
                let (a, b) = self.u32bin(i)?;
                let s = a + b;
                self.push(s & 0xFFFF_FFFF);
                if i.op == U32OverflowingAdd {
                    self.push(s >> 32);
                }
            }
            U32OverflowingAdd3 | U32WrappingAdd3 => {
                self.need_concrete(3)?;
                if (0..3).any(|k| self.get(k) >> 32 != 0) {
                    return Err(MErr::Undefined("u32 operation on non-u32 operand"));
                }
                let s = self.pop() + self.pop() + self.pop();
                self.push(s & 0xFFFF_FFFF);
                if i.op == U32OverflowingAdd3 {
                    self.push(s >> 32);
                }
            }
            U32OverflowingSub | U32WrappingSub => {
                let (a, b) = self.u32bin(i)?;
                self.push(a.wrapping_sub(b) & 0xFFFF_FFFF);
                if i.op == U32OverflowingSub {
                    self.push((a < b) as u64);
                }
            }
            U32OverflowingMul | U32WrappingMul => {
                let (a, b) = self.u32bin(i)?;
                let m = a * b;
                self.push(m & 0xFFFF_FFFF);
                if i.op == U32OverflowingMul {
                    self.push(m >> 32);
                }
            }
            U32OverflowingMadd | U32WrappingMadd => {
                self.need_concrete(3)?;
                if (0..3).any(|k| self.get(k) >> 32 != 0) {
                    return Err(MErr::Undefined("u32 operation on non-u32 operand"));
                }
                let b = self.pop();
                let a = self.pop();
                let c = self.pop();
                let m = a * b + c;
                self.push(m & 0xFFFF_FFFF);
                if i.op == U32OverflowingMadd {
                    self.push(m >> 32);
                }
            }
            U32Div | U32Mod | U32DivMod => {
                if i.imm == Some(0) {
                    return Err(MErr::Undefined("u32div.0 is an assembly error"));
                }
                self.need_concrete(if i.imm.is_some() { 1 } else { 2 })?;
                let bb = i.imm.unwrap_or(self.get(0));
                let aa = if i.imm.is_some() { self.get(0) } else { self.get(1) };
                if aa >> 32 != 0 || bb >> 32 != 0 {
                    return Err(MErr::Undefined("u32 operation on non-u32 operand"));
                }
                if bb == 0 {
                    return Err(MErr::Fail(Fail::DivZero));
                }
                let (a, b) = self.u32bin(i)?;
                match i.op {
                    U32Div => self.push(a / b),
                    U32Mod => self.push(a % b),
                    _ => {
                        self.push(a / b);
                        self.push(a % b);
                    }
                }
            }
            U32And | U32Or | U32Xor => {
                self.u32checked(2)?;
                let b = self.pop();
                let a = self.pop();
                self.push(match i.op {
                    U32And => a & b,
                    U32Or => a | b,
                    _ => a ^ b,
                });
            }
            U32Not => {
                self.u32checked(1)?;
                let a = self.pop();
                self.push(!a & 0xFFFF_FFFF);
            }
            U32Shl | U32Shr | U32Rotl | U32Rotr => {
                let top = if i.imm.is_some() { 1 } else { 2 };
                self.need_concrete(top)?;
                let b = i.imm.unwrap_or(self.get(0));
                let a = if i.imm.is_some() { self.get(0) } else { self.get(1) };
                if a >> 32 != 0 || b > 31 {
                    return Err(MErr::Undefined("u32 shift on non-u32 operand or amount > 31"));
                }
                for _ in 0..top {
                    self.pop();
                }
                let a32 = a as u32;
                let r = match i.op {
                    U32Shl => a32.wrapping_shl(b as u32),
                    U32Shr => a32.wrapping_shr(b as u32),
                    U32Rotl => a32.rotate_left(b as u32),
                    _ => a32.rotate_right(b as u32),
                };
                self.push(r as u64);
            }
            U32Popcnt | U32Clz | U32Ctz | U32Clo | U32Cto => {
                self.need_concrete(1)?;
                if self.get(0) >> 32 != 0 {
                    return Err(MErr::Undefined("u32 operation on non-u32 operand"));
                }
                let a = self.pop() as u32;
                self.push(match i.op {
                    U32Popcnt => a.count_ones(),
                    U32Clz => a.leading_zeros(),
                    U32Ctz => a.trailing_zeros(),
                    U32Clo => a.leading_ones(),
                    _ => a.trailing_ones(),
                } as u64);
            }
            U32Lt | U32Lte | U32Gt | U32Gte | U32Min | U32Max => {
                let (a, b) = self.u32bin(i)?;
                self.push(match i.op {
                    U32Lt => (a < b) as u64,
                    U32Lte => (a <= b) as u64,
                    U32Gt => (a > b) as u64,
                    U32Gte => (a >= b) as u64,
                    U32Min => a.min(b),
                    _ => a.max(b),
                });
            }
            // ---- stack manipulation ----------------------------------------------------------
            Drop => {
                self.pop();
            }
            Dropw => {
                for _ in 0..4 {
                    self.pop();
                }
            }
            Padw => {
                for _ in 0..4 {
                    self.push(0);
                }
            }
            Dup => {
                let n = i.imm.unwrap_or(0) as usize;
                let v = self.get(n);
                self.push(v);
            }
            Dupw => {
                let n = i.imm.unwrap_or(0) as usize;
                let w: Vec<u64> = (0..4).map(|k| self.get(4 * n + k)).collect();
                for k in (0..4).rev() {
                    self.push(w[k]);
                }
            }
            Swap => {
                let n = i.imm.unwrap_or(1) as usize;
                let (a, b) = (self.get(0), self.get(n));
                self.set(0, b);
                self.set(n, a);
            }
            Swapw => {
                let n = i.imm.unwrap_or(1) as usize;
                for k in 0..4 {
                    let (a, b) = (self.get(k), self.get(4 * n + k));
                    self.set(k, b);
                    self.set(4 * n + k, a);
                }
            }
            Swapdw => {
                for k in 0..8 {
                    let (a, b) = (self.get(k), self.get(8 + k));
                    self.set(k, b);
                    self.set(8 + k, a);
                }
            }
            Movup => {
                let n = i.imm.unwrap() as usize;
                let v = self.st.remove(n).unwrap();
                self.st.push_front(v);
            }
            Movdn => {
                let n = i.imm.unwrap() as usize;
                let v = self.st.pop_front().unwrap();
                self.st.insert(n, v);
            }
            Movupw => {
                let n = i.imm.unwrap() as usize;
                for _ in 0..4 {
                    let v = self.st.remove(4 * n + 3).unwrap();
                    self.st.push_front(v);
                }
            }
            Movdnw => {
                let n = i.imm.unwrap() as usize;
                for _ in 0..4 {
                    let v = self.st.pop_front().unwrap();
                    self.st.insert(4 * n + 3, v);
                }
            }
            Cswap | Cdrop => {
                self.need_concrete(1)?;
                if self.get(0) > 1 {
                    return Err(MErr::Fail(Fail::NotBinary));
                }
                let c = self.pop();
                let b = self.pop();
                let a = self.pop();
                // c = 0: [b, a] stays; c = 1: a on top
                if i.op == Cswap {
                    if c == 1 {
                        self.push(b);
                        self.push(a);
                    } else {
                        self.push(a);
                        self.push(b);
                    }
                } else {
                    self.push(if c == 1 { b } else { a });
                }
            }
            Cswapw | Cdropw => {
                self.need_concrete(1)?;
                if self.get(0) > 1 {
                    return Err(MErr::Fail(Fail::NotBinary));
                }
                let c = self.pop();
                let b = self.word_at(0);
                let a = self.word_at(4);
                for _ in 0..8 {
                    self.pop();
                }
                if i.op == Cswapw {
                    if c == 1 {
                        self.push_word(b);
                        self.push_word(a);
                    } else {
                        self.push_word(a);
                        self.push_word(b);
                    }
                } else {
                    self.push_word(if c == 1 { b } else { a });
                }
            }
            // ---- io ----------------------------------------------------------------------------
            Push => {
                for &v in &i.vals {
                    self.push(v);
                }
            }
            Sdepth => {
                if self.uncertain {
                    return Err(MErr::Undefined("stack depth known only up to trailing zeros"));
                }
                let d = self.depth() as u64;
                self.push(d);
            }
            ClkDrop => {}
            Caller => {
                if !self.in_syscall {
                    return Err(MErr::Undefined("caller outside a syscall"));
                }
                let p = self.caller.ok_or(MErr::Undefined("caller of a syscall made from the root context"))?;
                if self.caller_dyn {
                    // known finding C07:caller-after-dyncall: excluded here, demonstrated by its own sub-check
                    return Err(MErr::Undefined("caller in a context entered through dyncall"));
                }
                for k in 0..4 {
                    // overwrite the top word with the digest (d3 on top)
                    self.set(3 - k, SYM_BASE + (p as u64) * 4 + k as u64);
                }
            }
            Locaddr => {
                let a = self.local_addr(i.imm.unwrap())?;
                self.push(a);
            }
            MemLoad | MemLoadw | MemStore | MemStorew => {
                let a = match i.imm {
                    Some(a) => Self::addr_ok(a)?,
                    None => {
                        let a = Self::addr_ok(self.get(0))?;
                        self.pop();
                        a
                    }
                };
                self.mem_access(i.op, a)?;
            }
            LocLoad | LocLoadw | LocStore | LocStorew => {
                let a = self.local_addr(i.imm.unwrap())?;
                let is_store = matches!(i.op, LocStore | LocStorew);
                let fr = self.init_locals.last_mut().unwrap();
                if is_store {
                    // an element store leaves elements 1..3 of the word as they were: if the word
                    // was never written in this frame they are documented garbage
                    if i.op == LocStorew {
                        fr.insert(a);
                    } else if !fr.contains(&a) {
                        return Err(MErr::Undefined("loc_store to an uninitialised local leaves garbage"));
                    }
                } else if !fr.contains(&a) {
                    return Err(MErr::Undefined("read of an uninitialised local"));
                }
                let op = match i.op {
                    LocLoad => MemLoad,
                    LocLoadw => MemLoadw,
                    LocStore => MemStore,
                    _ => MemStorew,
                };
                self.mem_access(op, a)?;
            }
            MemStream | AdvPipe => {
                let a = Self::addr_ok(self.get(12))?;
                if a + 1 >= (1u64 << 32) {
                    return Err(MErr::Fail(Fail::AddrOob));
                }
                let (w0, w1) = if i.op == MemStream {
                    (self.mem_get(self.ctx, a), self.mem_get(self.ctx, a + 1))
                } else {
                    if !self.adv_on_demand && self.adv_remaining() < 8 {
                        return Err(MErr::Fail(Fail::AdviceEmpty));
                    }
                    let mut w = [[0u64; 4]; 2];
                    for j in 0..2 {
                        for k in 0..4 {
                            w[j][k] = self.adv_pop()?;
                        }
                    }
                    self.mem.insert((self.ctx, a), w[0]);
                    self.mem.insert((self.ctx, a + 1), w[1]);
                    (w[0], w[1])
                };
                // first word (address a) ends up deeper (positions 4..8), second on top
                self.set_word_at(4, w0);
                self.set_word_at(0, w1);
                self.set(12, a + 2);
            }
            AdvPush => {
                let n = i.imm.unwrap() as usize;
                if i.vals.first() == Some(&COND_MARK) && self.adv_on_demand && self.adv_remaining() == 0 {
                    // scripted loop condition while generating
                    let v = if self.cond_script.is_empty() { 0 } else { self.cond_script.remove(0) };
                    self.adv_force = Some(v);
                }
                if !self.adv_on_demand && self.adv_remaining() < n {
                    return Err(MErr::Fail(Fail::AdviceEmpty));
                }
                for _ in 0..n {
                    let v = self.adv_pop()?;
                    self.push(v);
                }
            }
            AdvLoadw => {
                if !self.adv_on_demand && self.adv_remaining() < 4 {
                    return Err(MErr::Fail(Fail::AdviceEmpty));
                }
                let mut w = [0u64; 4];
                for k in 0..4 {
                    w[k] = self.adv_pop()?;
                }
                self.set_word_at(0, w);
            }
            // ---- crypto ------------------------------------------------------------------------
            Hperm => {
                self.need_concrete(12)?;
                let mut s = [Felt::new(0); 12];
                for k in 0..12 {
                    s[k] = Felt::new(self.get(11 - k));
                }
                Rpo256::apply_permutation(&mut s);
                for k in 0..12 {
                    self.set(11 - k, s[k].as_int());
                }
            }
            Hash => {
                self.touch(4);
                self.need_concrete(4)?;
                let a = self.word_at(0);
                let d = Rpo256::hash_elements(&a.map(Felt::new));
                let w: [Felt; 4] = d.into();
                self.set_word_at(0, w.map(|f| f.as_int()));
            }
            Hmerge => {
                self.need_concrete(8)?;
                let b = self.word_at(0);
                let a = self.word_at(4);
                let d = Rpo256::merge(&[a.map(Felt::new).into(), b.map(Felt::new).into()]);
                for _ in 0..4 {
                    self.pop();
                }
                let w: [Felt; 4] = d.into();
                self.set_word_at(0, w.map(|f| f.as_int()));
            }
            MtreeGet => {
                // [d, i, R, ...] -> [V, R, ...]
                self.need_concrete(6)?;
                let (d, idx) = (self.get(0), self.get(1));
                let r = self.word_at(2);
                let v = self.mt_node(r, d, idx)?;
                self.pop();
                self.pop();
                self.push_word(v);
            }
            MtreeVerify => {
                // [V, d, i, R, ...] unchanged; fails unless the tree with root R opens to V
                self.need_concrete(10)?;
                let v = self.word_at(0);
                let (d, idx) = (self.get(4), self.get(5));
                let r = self.word_at(6);
                let node = self.mt_node(r, d, idx)?;
                if node != v {
                    return Err(MErr::Fail(Fail::Merkle));
                }
            }
            MtreeSet => {
                // [d, i, R, V', ...] -> [V, R', ...]
                self.need_concrete(10)?;
                let (d, idx) = (self.get(0), self.get(1));
                let r = self.word_at(2);
                let nv = self.word_at(6);
                let old = self.mt_node(r, d, idx)?;
                let ni = NodeIndex::new(d as u8, idx).map_err(|_| MErr::Fail(Fail::Merkle))?;
                let newroot = self
                    .store
                    .set_node(r.map(Felt::new).into(), ni, nv.map(Felt::new).into())
                    .map_err(|_| MErr::Fail(Fail::Merkle))?
                    .root;
                for _ in 0..10 {
                    self.pop();
                }
                let nr: [Felt; 4] = newroot.into();
                self.push_word(nr.map(|f| f.as_int()));
                self.push_word(old);
            }
            MtreeMerge => {
                // [R, L, ...] -> [M, ...]
                self.need_concrete(8)?;
                let r = self.word_at(0);
                let l = self.word_at(4);
                let m = self
                    .store
                    .merge_roots(l.map(Felt::new).into(), r.map(Felt::new).into())
                    .map_err(|_| MErr::Fail(Fail::Merkle))?;
                for _ in 0..8 {
                    self.pop();
                }
                let mw: [Felt; 4] = m.into();
                self.push_word(mw.map(|f| f.as_int()));
            }
            // ---- advice injectors ----------------------------------------------------------------
            AdvPushMapval | AdvPushMapvaln => {
                let off = i.imm.unwrap_or(0) as usize;
                self.need_concrete(off + 4)?;
                let key = self.word_at(off);
                let vals = self.adv_map.get(&key).cloned().ok_or(MErr::Fail(Fail::MapKey))?;
                // the list is pushed so that its first element is popped first
                for v in vals.iter().rev() {
                    self.adv_pushed.push(*v);
                }
                if i.op == AdvPushMapvaln {
                    self.adv_pushed.push(vals.len() as u64);
                }
            }
            AdvPushU64Div => {
                self.need_concrete(4)?;
                let (b1, b0, a1, a0) = (self.get(0), self.get(1), self.get(2), self.get(3));
                if [b1, b0, a1, a0].iter().any(|v| v >> 32 != 0) {
                    return Err(MErr::Undefined("u64div hint on non-u32 limbs"));
                }
                let a = (a1 << 32) | a0;
                let b = (b1 << 32) | b0;
                if b == 0 {
                    return Err(MErr::Fail(Fail::DivZero));
                }
                let (q, r) = (a / b, a % b);
                // advice stack after: [q_hi, q_lo, r_hi, r_lo] with q_hi popped first
                self.adv_pushed.push(r & 0xFFFF_FFFF);
                self.adv_pushed.push(r >> 32);
                self.adv_pushed.push(q & 0xFFFF_FFFF);
                self.adv_pushed.push(q >> 32);
            }
            AdvPushMtnode => {
                self.need_concrete(6)?;
                let (d, idx) = (self.get(0), self.get(1));
                let r = self.word_at(2);
                let v = self.mt_node(r, d, idx)?;
                for k in 0..4 {
                    self.adv_pushed.push(v[k]);
                }
            }
            AdvInsertMem => {
                // [K, a, b, ...]: advice_map[K] <- mem[a] .. mem[b]
                self.need_concrete(6)?;
                let key = self.word_at(0);
                let (a, b) = (self.get(4), self.get(5));
                if a >> 32 != 0 || b >> 32 != 0 || a > b || b - a > 64 {
                    return Err(MErr::Undefined("adv.insert_mem range"));
                }
                let mut vals = vec![];
                for addr in a..b {
                    vals.extend_from_slice(&self.mem_get(self.ctx, addr));
                }
                self.adv_map.insert(key, vals);
            }
            AdvInsertHdword => {
                self.need_concrete(8)?;
                let b = self.word_at(0);
                let a = self.word_at(4);
                let dom = i.imm.unwrap_or(0);
                let d = Rpo256::merge_in_domain(&[a.map(Felt::new).into(), b.map(Felt::new).into()], Felt::new(dom));
                let k: [Felt; 4] = d.into();
                let mut vals = a.to_vec();
                vals.extend_from_slice(&b);
                self.adv_map.insert(k.map(|f| f.as_int()), vals);
            }
            AdvInsertHperm => {
                self.need_concrete(12)?;
                let mut s = [Felt::new(0); 12];
                for k in 0..12 {
                    s[k] = Felt::new(self.get(11 - k));
                }
                let vals: Vec<u64> = s[4..12].iter().map(|f| f.as_int()).collect();
                Rpo256::apply_permutation(&mut s);
                let key = [s[4].as_int(), s[5].as_int(), s[6].as_int(), s[7].as_int()];
                self.adv_map.insert(key, vals);
            }
        }
        Ok(())
    }

    fn with_code(e: MErr, code: u32) -> MErr {
        match e {
            MErr::Fail(Fail::NotU32) => MErr::Fail(Fail::Assert(code)),
            o => o,
        }
    }

    fn mt_node(&self, root: [u64; 4], d: u64, idx: u64) -> Result<[u64; 4], MErr> {
        if d > 64 {
            return Err(MErr::Fail(Fail::Merkle));
        }
        let ni = NodeIndex::new(d as u8, idx).map_err(|_| MErr::Fail(Fail::Merkle))?;
        let n = self
            .store
            .get_node(root.map(Felt::new).into(), ni)
            .map_err(|_| MErr::Fail(Fail::Merkle))?;
        let w: [Felt; 4] = n.into();
        Ok(w.map(|f| f.as_int()))
    }

    fn mem_access(&mut self, op: Op, a: u64) -> R {
        let ctx = self.ctx;
        match op {
            Op::MemLoad => {
                let w = self.mem_get(ctx, a);
                self.push(w[0]);
            }
            Op::MemLoadw => {
                self.touch(4);
                let w = self.mem_get(ctx, a);
                self.set_word_at(0, w);
            }
            Op::MemStore => {
                let v = self.pop();
                let mut w = self.mem_get(ctx, a);
                w[0] = v;
                self.mem.insert((ctx, a), w);
            }
            Op::MemStorew => {
                self.touch(4);
                let w = self.word_at(0);
                self.mem.insert((ctx, a), w);
            }
            _ => unreachable!(),
        }
        Ok(())
    }
}

/// instructions documented as taking exactly one cycle in the form used
fn single_cycle(i: &Ins) -> bool {
    use Op::*;
    let noimm = i.imm.is_none();
    match i.op {
        Assert | Neg | Inv | Not | And | Or | U32Assert2 | U32Split | U32OverflowingAdd3 | U32OverflowingMadd
        | U32And | U32Xor | Drop | Swapw | Swapdw | Cswap | Cswapw | Sdepth | Caller | AdvLoadw | AdvPipe | MemStream
        | Hperm | MtreeVerify | Push | Nop | Dup | Swap | Movup | Movdn | Movupw | Movdnw | Dupw | Padw | AdvPush
        | Locaddr => true,
        Add | Mul | Eq | U32OverflowingAdd | U32OverflowingSub | U32OverflowingMul | U32DivMod | MemLoad | MemLoadw
        | MemStorew => noimm,
        _ => false,
    }
}

// ---- rendering ---------------------------------------------------------------------------------

pub struct RenderOpts {
    pub indent: bool,
    pub comments: bool,
    pub unroll_repeat: bool,
    /// do not protect decorator-only spans (used by the check that reports that finding)
    pub raw_decorators: bool,
    /// leave out debug/emit/trace decorators (the protective `push.0 drop` is kept so that the
    /// operation stream is the same as with decorators)
    pub strip_decorators: bool,
}
impl Default for RenderOpts {
    fn default() -> Self {
        RenderOpts { indent: false, comments: false, unroll_repeat: false, raw_decorators: false, strip_decorators: false }
    }
}

pub fn proc_name(prog: &Prog, idx: usize) -> String {
    prog.proc(idx).name.clone()
}

/// `true` if the instruction text is a decorator (produces no VM operation)
fn is_decorator_txt(t: &str) -> bool {
    t.starts_with("debug.") || t.starts_with("emit.") || t.starts_with("trace.") || t.starts_with("adv.")
}

fn render_nodes(prog: &Prog, nodes: &[Node], o: &RenderOpts, out: &mut String) {
    // The assembler of the pinned tree panics on a span that holds decorators but no operation
    // ("decorators in an empty SPAN block", span_builder.rs) - e.g. `call.f emit.1 call.g`. That is
    // a finding of its own (see DESIGN.md); to search behind it such spans get a `push.0 drop`.
    let mut span_has_op = false;
    let mut pending_dec = false;
    for n in nodes {
        match n {
            Node::I(i) => {
                if is_decorator_txt(&i.txt) {
                    pending_dec = true;
                } else if !i.txt.is_empty() {
                    span_has_op = true;
                }
            }
            _ => {
                if pending_dec && !span_has_op && !o.raw_decorators {
                    out.push_str("push.0 drop ");
                }
                span_has_op = false;
                pending_dec = false;
            }
        }
        match n {
            Node::I(i) => {
                // advice injectors are decorators for the assembler but change what later reads of
                // the advice stack return: they stay
                if !(o.strip_decorators && is_decorator_txt(&i.txt) && !i.txt.starts_with("adv.")) {
                    out.push_str(&i.txt);
                    out.push(' ');
                }
            }
            Node::If(t, f) => {
                out.push_str("if.true ");
                body_or_nop(prog, t, o, out);
                if !f.is_empty() {
                    out.push_str("else ");
                    body_or_nop(prog, f, o, out);
                }
                out.push_str("end ");
            }
            Node::While(b) => {
                out.push_str("while.true ");
                body_or_nop(prog, b, o, out);
                out.push_str("end ");
            }
            Node::Repeat(k, b) => {
                if o.unroll_repeat {
                    for _ in 0..*k {
                        body_or_nop(prog, b, o, out);
                    }
                } else {
                    out.push_str(&format!("repeat.{} ", k));
                    body_or_nop(prog, b, o, out);
                    out.push_str("end ");
                }
            }
            Node::Exec(p) => out.push_str(&format!("exec.{} ", proc_name(prog, *p))),
            Node::Call(p) => out.push_str(&format!("call.{} ", proc_name(prog, *p))),
            Node::Syscall(p) => out.push_str(&format!("syscall.{} ", proc_name(prog, *p))),
            Node::ProcRef(p) => out.push_str(&format!("procref.{} ", proc_name(prog, *p))),
            Node::DynExec(p) => out.push_str(&format!("procref.{} dynexec ", proc_name(prog, *p))),
            Node::DynCall(p) => out.push_str(&format!("procref.{} dyncall ", proc_name(prog, *p))),
        }
        if matches!(n, Node::ProcRef(_)) {
            span_has_op = true;
        }
        if o.comments {
            out.push_str("# c\n");
        }
    }
    if pending_dec && !span_has_op && !o.raw_decorators {
        out.push_str("push.0 drop ");
    }
}

fn body_or_nop(prog: &Prog, nodes: &[Node], o: &RenderOpts, out: &mut String) {
    let before = out.len();
    render_nodes(prog, nodes, o, out);
    if out.len() == before {
        // empty bodies are a parse error; `push.0 drop` would change semantics of nothing
        out.push_str("push.0 drop ");
    }
}

pub fn render_kernel(prog: &Prog) -> Option<String> {
    if prog.kprocs.is_empty() {
        return None;
    }
    let o = RenderOpts::default();
    let mut s = String::new();
    for p in &prog.kprocs {
        s.push_str(&format!("export.{}.{}\n", p.name, p.locals));
        body_or_nop(prog, &p.body, &o, &mut s);
        s.push_str("\nend\n");
    }
    Some(s)
}

pub fn render_with(prog: &Prog, o: &RenderOpts) -> String {
    let mut s = String::new();
    for (n, e) in &prog.consts {
        s.push_str(&format!("const.{}={}\n", n, e));
    }
    for p in &prog.procs {
        if p.locals > 0 {
            s.push_str(&format!("proc.{}.{}\n", p.name, p.locals));
        } else {
            s.push_str(&format!("proc.{}\n", p.name));
        }
        body_or_nop(prog, &p.body, o, &mut s);
        s.push_str("\nend\n");
    }
    s.push_str("begin\n");
    body_or_nop(prog, &prog.main, o, &mut s);
    s.push_str("\nend\n");
    s
}

pub fn render(prog: &Prog) -> String {
    render_with(prog, &RenderOpts::default())
}
