//! Helpers shared by the trace-level properties.

use crate::engine::{fnv, Viol};
use crate::gen::{generate, GenCfg, Generated};
use crate::vm::{self, Assembled, Ran};
use processor::{ExecutionOptions, ExecutionTrace};
use serde_json::json;
use vm_core::{Felt, Program, ProgramInfo};

/// every feature on; used by C01, C03, C12, C13, C14, C15
pub fn full_cfg() -> GenCfg {
    GenCfg { max_nodes: 70, ..GenCfg::default() }
}

pub fn program_info(p: &Program) -> ProgramInfo {
    ProgramInfo::new(p.hash(), p.kernel().clone())
}

pub struct Executed {
    pub g: Generated,
    pub program: Program,
    pub trace: Box<ExecutionTrace>,
}

pub enum ExecOutcome {
    Done(Executed),
    /// generated program did not assemble / did not run to completion: not this property's
    /// business (C05-C07 compare with the model), counted as trivial
    Skipped(String),
}

pub fn case_json(g: &Generated) -> serde_json::Value {
    json!({"case": g.case.to_json()})
}

/// generate, assemble, execute with the given options; panics are violations of `prop`
pub fn exec_generated(prop: &str, choices: &[u16], cfg: GenCfg, opts: ExecutionOptions) -> Result<ExecOutcome, Viol> {
    let g = generate(choices, cfg);
    exec_case(prop, g, opts)
}

pub fn exec_case(prop: &str, g: Generated, opts: ExecutionOptions) -> Result<ExecOutcome, Viol> {
    let program = match vm::assemble(&g.case, false) {
        Assembled::Ok(p) => p,
        Assembled::Err(e) => return Ok(ExecOutcome::Skipped(format!("asm: {e}"))),
        Assembled::Panic(p) => return Err(Viol::new(format!("{prop}:asm-panic"), format!("assembler panicked: {p}"), case_json(&g))),
    };
    match vm::run(&program, &g.case, opts) {
        Ran::Ok(trace, _) => Ok(ExecOutcome::Done(Executed { g, program, trace })),
        Ran::Err(e, _) => Ok(ExecOutcome::Skipped(format!("exec: {e}"))),
        Ran::Panic(p) => Err(Viol::new(format!("{prop}:exec-panic:{}", crate::diff::panic_site(&p)), format!("execution panicked: {p}"), case_json(&g))),
    }
}

/// 16 pseudo-random challenges derived from the generated input (so that runs are reproducible)
pub fn challenges(choices: &[u16], salt: u64) -> Vec<Felt> {
    let bytes: Vec<u8> = choices.iter().flat_map(|c| c.to_le_bytes()).collect();
    let mut h = fnv(&bytes) ^ salt.wrapping_mul(0x9E3779B97F4A7C15);
    (0..16)
        .map(|_| {
            h ^= h << 13;
            h ^= h >> 7;
            h ^= h << 17;
            Felt::new(h % crate::fe::P)
        })
        .collect()
}
