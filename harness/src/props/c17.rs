//! C17 — standard-library hash functions agree with their reference definitions.

use crate::engine::{fp_str, Ctx, Info, Out, Viol};
use crate::gen::Ch;
use crate::vm::{self, Case, Ran};
use processor::ExecutionOptions;
use proptest::collection::vec;
use proptest::prelude::*;
use serde_json::json;
use sha2::Digest as _;
use vm_core::crypto::hash::Rpo256;
use vm_core::{Felt, StarkField};

thread_local! {
    static ASM: std::cell::RefCell<Option<assembly::Assembler>> = std::cell::RefCell::new(None);
}
fn assemble_std(src: &str) -> Result<vm_core::Program, String> {
    ASM.with(|a| {
        let mut a = a.borrow_mut();
        if a.is_none() {
            *a = Some(assembly::Assembler::default().with_library(&stdlib::StdLibrary::default()).map_err(|e| format!("{e}"))?);
        }
        match vm::catch(|| a.as_ref().unwrap().compile(src).map_err(|e| format!("{e}"))) {
            Ok(r) => r,
            Err(p) => {
                *a = None;
                Err(format!("assembler panic: {p}"))
            }
        }
    })
}

const SENT: [u64; 6] = [0xAAAA_0001, 0xBBBB_0002, 0xCCCC_0003, 0xDDDD_0004, 0xEEEE_0005, 0xFFFF_0006];

fn input_bytes(ch: &mut Ch, n: usize) -> Vec<u8> {
    match ch.pick(6) {
        0 => vec![0u8; n],
        1 => vec![0xff; n],
        2 => {
            let mut v = vec![0u8; n];
            let bit = ch.pick(n * 8);
            v[bit / 8] = 1 << (bit % 8);
            v
        }
        3 => (0..n).map(|i| i as u8).collect(),
        _ => (0..n).map(|_| ch.next() as u8).collect(),
    }
}

fn strip_zeros(mut v: Vec<u64>) -> Vec<u64> {
    while v.len() > 16 && v.last() == Some(&0) {
        v.pop();
    }
    v
}

fn run_and_compare(label: &str, src: &str, stack: Vec<u64>, want_top: Vec<u64>, rest: Vec<u64>, desc: serde_json::Value) -> Out {
    let case = Case { src: src.to_string(), use_stdlib: true, stack: stack.clone(), ..Case::default() };
    let cj = json!({"proc": label, "input": desc, "case": case.to_json()});
    let program = assemble_std(src).map_err(|e| Viol::new("C17:asm", e, cj.clone()))?;
    match vm::run(&program, &case, ExecutionOptions::default()) {
        Ran::Panic(p) => Err(Viol::new(format!("C17:panic:{label}"), p, cj)),
        Ran::Err(e, _) => Err(Viol::new(format!("C17:error:{label}"), format!("{e}"), cj)),
        Ran::Ok(t, _) => {
            let got = strip_zeros(vm::outputs_top_first(&t));
            let mut expect = want_top.clone();
            expect.extend(rest);
            while expect.len() < 16 {
                expect.push(0);
            }
            let expect = strip_zeros(expect);
            if got != expect {
                let pos = got.iter().zip(expect.iter()).position(|(a, b)| a != b).unwrap_or(got.len().min(expect.len()));
                let what = if pos < want_top.len() { "digest" } else { "rest-of-stack" };
                return Err(Viol::new(format!("C17:wrong-{what}:{label}"), format!("{label}: first difference at position {pos}: got {:?}, reference {:?}", got.get(pos), expect.get(pos)), cj));
            }
            Ok(Info {
                nontrivial: Some(fp_str(&format!("{label}{:?}", stack))),
                classes: vec![label.to_string()],
                sample: Some(json!({"proc": label, "input": cj["input"], "digest_top_first": want_top})),
                ..Info::default()
            })
        }
    }
}

fn words_le(b: &[u8]) -> Vec<u64> {
    b.chunks(4).map(|c| u32::from_le_bytes([c[0], c[1], c[2], c[3]]) as u64).collect()
}
fn words_be(b: &[u8]) -> Vec<u64> {
    b.chunks(4).map(|c| u32::from_be_bytes([c[0], c[1], c[2], c[3]]) as u64).collect()
}
/// keccak convention of the library: every 8 bytes are a little-endian u64 given as (high, low)
fn words_keccak(b: &[u8]) -> Vec<u64> {
    b.chunks(8)
        .flat_map(|c| {
            let w = u64::from_le_bytes([c[0], c[1], c[2], c[3], c[4], c[5], c[6], c[7]]);
            [w >> 32, w & 0xFFFF_FFFF]
        })
        .collect()
}

pub fn check_block(choices: &Vec<u16>, which: usize) -> Out {
    let mut ch = Ch::new(choices);
    let hexs = |b: &[u8]| b.iter().map(|x| format!("{:02x}", x)).collect::<String>();
    let deep = ch.chance(1, 2);
    let mut rest: Vec<u64> = SENT.to_vec();
    if deep {
        rest.extend((0..11).map(|i| 0x7000_0000u64 + i));
    }
    match which {
        0 | 1 => {
            let n = if which == 0 { 32 } else { 64 };
            let b = input_bytes(&mut ch, n);
            let mut stack = words_le(&b);
            stack.extend(rest.clone());
            let want = words_le(blake3::hash(&b).as_bytes());
            let p = if which == 0 { "hash_1to1" } else { "hash_2to1" };
            run_and_compare(&format!("blake3::{p}"), &format!("use.std::crypto::hashes::blake3\nbegin exec.blake3::{p} end"), stack, want, rest, json!(hexs(&b)))
        }
        2 | 3 => {
            let n = if which == 2 { 32 } else { 64 };
            let b = input_bytes(&mut ch, n);
            let mut stack = words_be(&b);
            stack.extend(rest.clone());
            let want = words_be(&sha2::Sha256::digest(&b));
            let p = if which == 2 { "hash_1to1" } else { "hash_2to1" };
            run_and_compare(&format!("sha256::{p}"), &format!("use.std::crypto::hashes::sha256\nbegin exec.sha256::{p} end"), stack, want, rest, json!(hexs(&b)))
        }
        4 => {
            let b = input_bytes(&mut ch, 64);
            let mut stack = words_keccak(&b);
            stack.extend(rest.clone());
            let want = words_keccak(&sha3::Keccak256::digest(&b));
            run_and_compare("keccak256::hash", "use.std::crypto::hashes::keccak256\nbegin exec.keccak256::hash end", stack, want, rest, json!(hexs(&b)))
        }
        5 => {
            // bit interleaving round trip on a lane
            let w = match ch.pick(4) {
                0 => 0,
                1 => u64::MAX,
                2 => 1u64 << ch.pick(64),
                _ => ch.u64(),
            };
            let mut stack = vec![w >> 32, w & 0xFFFF_FFFF];
            stack.extend(rest.clone());
            // even bits / odd bits of the lane (keccak bit interleaving)
            let (mut even, mut odd) = (0u64, 0u64);
            for i in 0..32 {
                even |= ((w >> (2 * i)) & 1) << i;
                odd |= ((w >> (2 * i + 1)) & 1) << i;
            }
            let r1 = run_and_compare("keccak256::to_bit_interleaved", "use.std::crypto::hashes::keccak256\nbegin exec.keccak256::to_bit_interleaved end", stack.clone(), vec![even, odd], rest.clone(), json!(w))?;
            let _ = r1;
            run_and_compare(
                "keccak256::bit_interleaving_roundtrip",
                "use.std::crypto::hashes::keccak256\nbegin exec.keccak256::to_bit_interleaved exec.keccak256::from_bit_interleaved end",
                stack,
                vec![w >> 32, w & 0xFFFF_FFFF],
                rest,
                json!(w),
            )
        }
        6 => {
            // sha256::hash_memory over len bytes stored as big-endian words, four per memory word
            let len = match ch.pick(5) {
                0 => ch.pick(4),
                1 => 55 + ch.pick(10),
                2 => 119 + ch.pick(10),
                _ => ch.pick(200),
            };
            let b = input_bytes(&mut ch, len.max(1))[..len].to_vec();
            let mut padded = b.clone();
            while padded.len() % 16 != 0 {
                padded.push(0);
            }
            let ws = words_be(&padded);
            let mut src = String::from("use.std::crypto::hashes::sha256\nbegin\n");
            for (i, w) in ws.chunks(4).enumerate() {
                // the first element of the word is the lowest-addressed 32-bit word
                src.push_str(&format!("push.{}.{}.{}.{} mem_storew.{} dropw\n", w[3], w[2], w[1], w[0], 10000 + i));
            }
            src.push_str(&format!("push.{} push.10000 exec.sha256::hash_memory end", len));
            let want = words_be(&sha2::Sha256::digest(&b));
            run_and_compare("sha256::hash_memory", &src, rest.clone(), want, rest, json!({"len": len, "bytes": hexs(&b)}))
        }
        _ => {
            // native RPO helpers over element sequences in memory
            let nwords = 1 + ch.pick(40);
            let start = [1000u64, 0, 77, (1u64 << 32) - 100][ch.pick(4)];
            let elems: Vec<u64> = (0..nwords * 4).map(|_| ch.felt()).collect();
            let mut src = String::from("use.std::crypto::hashes::native\nbegin\n");
            for (i, w) in elems.chunks(4).enumerate() {
                src.push_str(&format!("push.{}.{}.{}.{} mem_storew.{} dropw\n", w[0], w[1], w[2], w[3], start + i as u64));
            }
            let d: [Felt; 4] = Rpo256::hash_elements(&elems.iter().map(|e| Felt::new(*e)).collect::<Vec<_>>()).into();
            let want: Vec<u64> = d.iter().rev().map(|f| f.as_int()).collect();
            if nwords % 2 == 0 && ch.chance(1, 2) {
                // hash_memory_even + state_to_digest with an explicit RPO state
                src.push_str(&format!("push.{} push.{} padw padw padw exec.native::hash_memory_even exec.native::state_to_digest movup.4 drop movup.4 drop end", start + nwords as u64, start));
                run_and_compare("native::hash_memory_even+state_to_digest", &src, rest.clone(), want, rest, json!({"words": nwords, "start": start}))
            } else {
                src.push_str(&format!("push.{} push.{} exec.native::hash_memory end", start + nwords as u64, start));
                run_and_compare("native::hash_memory", &src, rest.clone(), want, rest, json!({"words": nwords, "start": start}))
            }
        }
    }
}

/// two or three hash procedures called one after the other in the same execution (the second and
/// third run on whatever the earlier ones left in their locals): every digest is the reference's
pub fn check_sequence(choices: &Vec<u16>) -> Out {
    let mut ch = Ch::new(choices);
    let hexs = |b: &[u8]| b.iter().map(|x| format!("{:02x}", x)).collect::<String>();
    let k = 2 + ch.pick(2);
    let rest: Vec<u64> = SENT.to_vec();
    let mut stack: Vec<u64> = vec![];
    let mut src = String::from("use.std::crypto::hashes::blake3\nuse.std::crypto::hashes::sha256\nuse.std::crypto::hashes::keccak256\nbegin\n");
    let mut names = vec![];
    let mut inputs = vec![];
    let mut want: Vec<u64> = vec![];
    for i in 0..k {
        let which = ch.pick(5);
        let (name, n) = [("blake3::hash_1to1", 32), ("blake3::hash_2to1", 64), ("sha256::hash_1to1", 32), ("sha256::hash_2to1", 64), ("keccak256::hash", 64)][which];
        let b = input_bytes(&mut ch, n);
        let (words, digest) = match which {
            0 | 1 => (words_le(&b), words_le(blake3::hash(&b).as_bytes())),
            2 | 3 => (words_be(&b), words_be(&sha2::Sha256::digest(&b))),
            _ => (words_keccak(&b), words_keccak(&sha3::Keccak256::digest(&b))),
        };
        stack.extend(words);
        src.push_str(&format!("exec.{name}\n"));
        if i + 1 < k {
            // the digest of an earlier call is checked in place and dropped
            let d: Vec<String> = digest.iter().rev().map(|x| x.to_string()).collect();
            src.push_str(&format!("push.{} assert_eqw.err={} push.{} assert_eqw.err={}\n", d[4..8].join("."), 100 + i, d[0..4].join("."), 200 + i));
        } else {
            want = digest;
        }
        names.push(name);
        inputs.push(hexs(&b));
    }
    src.push_str("end");
    stack.extend(rest.clone());
    let label = format!("sequence:{}", names.join("+"));
    run_and_compare(&label, &src, stack, want, rest, json!({"calls": names, "inputs": inputs}))
}

pub fn run(ctx: &Ctx) {
    let read = |f: &str| -> Vec<String> {
        std::fs::read_to_string(format!("/repo/stdlib/asm/crypto/hashes/{f}.masm")).unwrap_or_default().lines().filter_map(|l| l.strip_prefix("export.")).map(|l| l.split('.').next().unwrap().to_string()).collect()
    };
    ctx.set_extra("exports", json!({"blake3": read("blake3"), "sha256": read("sha256"), "keccak256": read("keccak256"), "native": read("native")}));
    ctx.set_rule("32-/64-byte inputs (all-zero, all-ones, single bit, byte ramp, random) for blake3::hash_1to1/2to1, sha256::hash_1to1/2to1, keccak256::hash, byte strings of length 0..200 (incl. the padding boundaries 55/56/119/120) for sha256::hash_memory, 64-bit lanes for the keccak bit-interleaving helpers, element sequences of 1..40 words at four start addresses for native::hash_memory / hash_memory_even / state_to_digest; oracle: the blake3, sha2, sha3 crates and miden-crypto's Rpo256::hash_elements; digest exact, six (or seventeen, beyond position 15) sentinel elements below untouched; non-trivial = every case; distinct by input; plus sequences of two or three hash calls (any mix of the five block procedures) in one execution, every digest compared");
    ctx.assume("the empty-capacity RPO state [0;4] passed to hash_memory_even is the one hash_elements uses for an even number of words");
    let n = |q, t| ctx.n(q, t);
    ctx.run("blake3-1to1", n(300, 30_000), || vec(any::<u16>(), 40..41), |c| check_block(c, 0));
    ctx.run("blake3-2to1", n(300, 30_000), || vec(any::<u16>(), 72..73), |c| check_block(c, 1));
    ctx.run("sha256-1to1", n(300, 30_000), || vec(any::<u16>(), 40..41), |c| check_block(c, 2));
    ctx.run("sha256-2to1", n(300, 30_000), || vec(any::<u16>(), 72..73), |c| check_block(c, 3));
    ctx.run("keccak256", n(200, 6_000), || vec(any::<u16>(), 72..73), |c| check_block(c, 4));
    ctx.run("keccak-interleave", n(600, 60_000), || vec(any::<u16>(), 12..13), |c| check_block(c, 5));
    ctx.run("sha256-memory", n(200, 8_000), || vec(any::<u16>(), 220..221), |c| check_block(c, 6));
    ctx.run("native", n(600, 60_000), || vec(any::<u16>(), 700..701), |c| check_block(c, 7));
    ctx.run("sequence", n(200, 6_000), || vec(any::<u16>(), 230..231), check_sequence);
}

pub fn replay(ctx: &Ctx, v: &serde_json::Value) {
    // the stored case holds source and stack; the reference digest is recomputed by re-running the
    // deterministic sub-checks is not possible from bytes alone, so compare against the stored proc
    let c = &v["case"];
    let case = Case::from_json(&c["case"]);
    let out = (|| -> Out {
        let program = assemble_std(&case.src).map_err(|e| Viol::new("C17:asm", e, c.clone()))?;
        match vm::run(&program, &case, ExecutionOptions::default()) {
            Ran::Ok(_, _) => Err(Viol::new(v["signature"].as_str().unwrap_or("C17:replay"), "replay executes the stored program; the digest comparison is reproduced by `./check C17 --tier quick` with the same VERIF_SEED", c.clone())),
            Ran::Err(e, _) => Err(Viol::new("C17:error", format!("{e}"), c.clone())),
            Ran::Panic(p) => Err(Viol::new("C17:panic", p, c.clone())),
        }
    })();
    ctx.record("replay", out);
}
