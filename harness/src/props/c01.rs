//! C01 — every successful execution is provable and its proof verifies.

use crate::common::*;
use crate::engine::{fp_str, Ctx, Info, Out, Viol};
use crate::gen::{generate, Expect, GenCfg};
use crate::vm::{self, Assembled, Case, Ran};
use air::{ExecutionProof, HashFunction, ProvingOptions};
use processor::ExecutionOptions;
use proptest::collection::vec;
use proptest::prelude::*;
use serde_json::json;
use winter_prover::Trace;

fn cfg() -> GenCfg {
    GenCfg { max_nodes: 45, ..full_cfg() }
}

pub const SETS: [&str; 4] = ["blake3-96", "blake3-128", "rpo-96", "rpo-128"];

pub fn options(set: usize) -> (ProvingOptions, HashFunction, u32) {
    match set {
        0 => (ProvingOptions::with_96_bit_security(false), HashFunction::Blake3_192, 96),
        1 => (ProvingOptions::with_128_bit_security(false), HashFunction::Blake3_256, 128),
        2 => (ProvingOptions::with_96_bit_security(true), HashFunction::Rpo256, 96),
        _ => (ProvingOptions::with_128_bit_security(true), HashFunction::Rpo256, 128),
    }
}

pub struct Proved {
    pub program: vm_core::Program,
    pub outputs: vm_core::StackOutputs,
    pub proof: ExecutionProof,
}

/// prove + verify round trip for one concrete case; `set` selects the option set
pub fn round_trip(case: &Case, set: usize, hint: u32) -> Result<Result<Proved, String>, Viol> {
    let cj = || json!({"case": case.to_json(), "option_set": SETS[set], "hint": hint});
    let program = match vm::assemble(case, false) {
        Assembled::Ok(p) => p,
        Assembled::Err(e) => return Ok(Err(format!("asm: {e}"))),
        Assembled::Panic(p) => return Err(Viol::new("C01:asm-panic", p, cj())),
    };
    let exec_out = match vm::run(&program, case, ExecutionOptions::default()) {
        Ran::Ok(t, _) => t.stack_outputs().clone(),
        Ran::Err(e, _) => return Ok(Err(format!("exec: {e}"))),
        Ran::Panic(p) => return Err(Viol::new(format!("C01:exec-panic:{}", crate::diff::panic_site(&p)), p, cj())),
    };
    let (opts, hash_fn, level) = options(set);
    let opts = opts.with_execution_options(ExecutionOptions::new(None, hint, false).unwrap());
    let r = vm::catch(|| prover::prove(&program, case.stack_inputs(), case.host(), opts));
    let (outputs, proof) = match r {
        Err(p) => return Err(Viol::new(format!("C01:prove-panic:{}", crate::diff::panic_site(&p)), format!("proving a successful execution panicked: {p}"), cj())),
        Ok(Err(e)) => return Err(Viol::new("C01:prove-error", format!("execution succeeds but prove() fails: {e}"), cj())),
        Ok(Ok(x)) => x,
    };
    if outputs != exec_out {
        return Err(Viol::new("C01:prove-outputs", "prove() reports other outputs than execute()", cj()));
    }
    if proof.hash_fn() != hash_fn {
        return Err(Viol::new("C01:hash-tag", "proof is tagged with another hash function than configured", cj()));
    }
    // the statement is rebuilt from the program, not taken from the trace
    let info = program_info(&program);
    let check_verify = |p: ExecutionProof, what: &str| -> Result<(), Viol> {
        match vm::catch(|| verifier::verify(info.clone(), case.stack_inputs(), outputs.clone(), p)) {
            Err(pn) => Err(Viol::new(format!("C01:verify-panic:{}", crate::diff::panic_site(&pn)), format!("verifying {what} panicked: {pn}"), cj())),
            Ok(Err(e)) => Err(Viol::new(format!("C01:verify-rejects:{}", SETS[set]), format!("verifier rejects {what}: {e}"), cj())),
            Ok(Ok(l)) => {
                if l < level {
                    Err(Viol::new("C01:security-level", format!("reported security level {l} below the configured {level}"), cj()))
                } else {
                    Ok(())
                }
            }
        }
    };
    check_verify(proof.clone(), "the proof")?;
    let bytes = proof.to_bytes();
    let back = match vm::catch(|| ExecutionProof::from_bytes(&bytes)) {
        Err(pn) => return Err(Viol::new("C01:from-bytes-panic", pn, cj())),
        Ok(Err(e)) => return Err(Viol::new("C01:from-bytes-error", format!("serialised proof does not decode: {e}"), cj())),
        Ok(Ok(p)) => p,
    };
    if back != proof {
        return Err(Viol::new("C01:proof-roundtrip", "proof differs after to_bytes/from_bytes", cj()));
    }
    check_verify(back, "the re-read proof")?;
    Ok(Ok(Proved { program, outputs, proof }))
}

pub fn check(choices: &Vec<u16>, set: usize) -> Out {
    let g = generate(choices, cfg());
    let hint = [64u32, 64, 256, 4096][choices.first().copied().unwrap_or(0) as usize % 4];
    let pr = match round_trip(&g.case, set, hint)? {
        Ok(p) => p,
        Err(why) => return Ok(Info { classes: vec![format!("skipped:{}", why.split(':').next().unwrap())], ..Info::default() }),
    };
    // the outputs proven are the ones the documentation predicts
    if let Expect::Ok(st) = &g.expect {
        let (procs, kprocs) = crate::diff::names(&g);
        if let Ok(want) = crate::diff::resolve_syms(&g.case, st, &procs, &kprocs) {
            let mut got = pr.outputs.stack().to_vec();
            let mut want = want;
            if g.uncertain {
                while got.len() > 16 && got.last() == Some(&0) {
                    got.pop();
                }
                while want.len() > 16 && want.last() == Some(&0) {
                    want.pop();
                }
            }
            if got != want {
                return Err(Viol::new("C01:outputs-vs-model", "proven outputs differ from the reference model", json!({"case": g.case.to_json()})));
            }
        }
    }
    let t = match vm::run(&pr.program, &g.case, ExecutionOptions::default()) {
        Ran::Ok(t, _) => t,
        _ => return Ok(Info::default()),
    };
    let s = t.trace_len_summary();
    let regime = if s.main_trace_len() >= s.range_trace_len() && s.main_trace_len() >= s.chiplets_trace_len().trace_len() {
        "main-dominated"
    } else if s.range_trace_len() >= s.chiplets_trace_len().trace_len() {
        "range-dominated"
    } else {
        "chiplets-dominated"
    };
    let mut classes: Vec<String> = g.classes.iter().map(|s| s.to_string()).collect();
    classes.push(SETS[set].to_string());
    classes.push(regime.to_string());
    classes.push(format!("len=2^{}", t.length().trailing_zeros()));
    if pr.outputs.stack().len() > 16 {
        classes.push("outputs>16".into());
    }
    if g.case.stack.len() > 16 {
        classes.push("inputs>16".into());
    }
    if !pr.program.kernel().is_empty() {
        classes.push("kernel".into());
    }
    let nontrivial = s.main_trace_len() >= 20 && g.classes.len() >= 3;
    let mut key: Vec<&str> = g.classes.iter().copied().collect();
    key.push(SETS[set]);
    key.push(regime);
    Ok(Info {
        nontrivial: if nontrivial { Some(fp_str(&format!("{:?}|{}|{}", key, pr.outputs.stack().len() > 16, g.case.stack.len() > 16))) } else { None },
        classes,
        sample: Some(json!({"src": g.case.src, "kernel": g.case.kernel, "stack_top_first": g.case.stack, "option_set": SETS[set], "trace_len": t.length(), "proof_bytes": pr.proof.to_bytes().len()})),
        ..Info::default()
    })
}

pub fn run(ctx: &Ctx) {
    ctx.set_rule("programs from the full generator (every instruction class, control flow, call/syscall/dyn, kernels, inputs and outputs deeper than 16) proved under each of the four standard option sets with generated expected-cycle hints; oracle: prove Ok, outputs = execute's = the reference model's, verify(ProgramInfo rebuilt from program hash and kernel) Ok with level >= configured, hash tag matches, proof bytes round-trip to an equal proof that verifies; non-trivial = >= 20 cycles and >= 3 instruction classes; distinct by (class set, option set, padding regime, deep inputs/outputs)");
    ctx.run("blake3-96", ctx.n(96, 2000), || vec(any::<u16>(), 20..500), |c| check(c, 0));
    ctx.run("blake3-128", ctx.n(32, 600), || vec(any::<u16>(), 20..500), |c| check(c, 1));
    ctx.run("rpo-96", ctx.n(16, 200), || vec(any::<u16>(), 20..300), |c| check(c, 2));
    ctx.run("rpo-128", ctx.n(4, 48), || vec(any::<u16>(), 20..200), |c| check(c, 3));
    // directed programs for operations the generator does not emit (Merkle operations on trees of
    // depth 1..4) or emits rarely (locals, call / syscall / dynexec / dyncall chains, pipe, stream):
    // the same list C04 walks, here proved and verified
    let directed = crate::props::c04::directed();
    ctx.run_list("directed", &directed, |case| {
        let set = if case.src.contains("mtree") { (case.stack.len() % 2) * 2 } else { 0 };
        match round_trip(case, set, 64)? {
            Ok(_) => Ok(Info { nontrivial: Some(crate::engine::fp_str(&format!("{}{:?}", case.src, case.stack))), classes: vec![format!("directed:{}", SETS[set])], ..Info::default() }),
            Err(e) => Ok(Info { classes: vec![format!("directed-skipped:{}", e.chars().take(40).collect::<String>())], ..Info::default() }),
        }
    });
    // chiplet-dominated traces around a power of two: repeat.k mem_stream gives 8 + 2k + 1 chiplet
    // rows with few cycles; k = 27 is exactly 63 rows (the padding row after the chiplets then
    // decides between a 64- and a 128-row trace)
    let ks: Vec<u32> = (22..=32).chain([58, 59, 60]).collect();
    ctx.run_list("chiplet-rows-around-2^k", &ks, |&k| {
        let case = Case { src: format!("begin repeat.{k} mem_stream end mem_load.100 drop end"), ..Case::default() };
        round_trip(&case, 0, 64)?.map_err(|e| Viol::new("C01:boundary-setup", e, json!({"k": k})))?;
        Ok(Info { nontrivial: Some(1000 + k as u64), classes: vec!["chiplet-rows~2^k".into()], ..Info::default() })
    });
    // the boundary found by C03: programs running exactly 2^k - 1 cycles
    let reps: Vec<u32> = vec![20];
    ctx.run_list("cycles-2^k-1", &reps, |&r| {
        let case = Case { src: format!("begin repeat.{r} push.1 drop end end"), ..Case::default() };
        round_trip(&case, 0, 64)?.map_err(|e| Viol::new("C01:boundary-setup", e, json!({})))?;
        Ok(Info { nontrivial: Some(r as u64), classes: vec!["cycles=2^k-1".into()], ..Info::default() })
    });
}

pub fn replay(ctx: &Ctx, v: &serde_json::Value) {
    let case = Case::from_json(&v["case"]["case"]);
    let set = SETS.iter().position(|s| Some(*s) == v["case"]["option_set"].as_str()).unwrap_or(0);
    let hint = v["case"]["hint"].as_u64().unwrap_or(64) as u32;
    let out = round_trip(&case, set, hint).map(|_| Info::default());
    ctx.record("replay", out);
}
