//! C10 — serialised code and data round-trip and recompile to the same program.

use crate::engine::{fp_str, Ctx, Info, Out, Viol};
use crate::gen::Ch;
use crate::srcgen::{self, SrcCfg, FORMS, LOCAL_FORMS};
use crate::vm;
use assembly::ast::{AstSerdeOptions, ModuleAst, ProgramAst};
use assembly::{Assembler, LibraryNamespace, LibraryPath, MaslLibrary, Module, Version};
use processor::ExecutionOptions;
use proptest::collection::vec;
use proptest::prelude::*;
use serde_json::json;
use vm_core::utils::{Deserializable, Serializable, SliceReader};
use vm_core::{Felt, Kernel, ProgramInfo, StackInputs, StackOutputs, StarkField};

pub const KERNEL_SRC: &str = "export.kfoo\n    push.1 drop\nend\nexport.kbar.2\n    push.2 drop loc_storew.1 caller\nend\n";

thread_local! {
    static ASM: std::cell::RefCell<Option<Assembler>> = std::cell::RefCell::new(None);
}
pub fn with_asm<T>(f: impl FnOnce(&Assembler) -> T) -> Result<T, String> {
    ASM.with(|a| {
        let mut a = a.borrow_mut();
        if a.is_none() {
            let asm = Assembler::default()
                .with_library(&stdlib::StdLibrary::default())
                .map_err(|e| format!("{e}"))?
                .with_kernel(KERNEL_SRC)
                .map_err(|e| format!("{e}"))?;
            *a = Some(asm);
        }
        match vm::catch(|| f(a.as_ref().unwrap())) {
            Ok(r) => Ok(r),
            Err(p) => {
                *a = None;
                Err(format!("panic: {p}"))
            }
        }
    })
}

fn prog_cfg() -> SrcCfg {
    SrcCfg { max_items: 120, max_nest: 3, module: false, kernel: false, imports: true, docs: true }
}
fn mod_cfg() -> SrcCfg {
    SrcCfg { max_items: 90, max_nest: 3, module: true, kernel: false, imports: true, docs: true }
}

fn cb_hashes(p: &vm_core::Program, src: &str) -> Vec<String> {
    // digests of every call target named in the root tree that is present in the table
    let _ = src;
    let mut v = vec![format!("{:?}", p.hash()), format!("{:?}", p.kernel().proc_hashes())];
    fn walk(b: &vm_core::code_blocks::CodeBlock, t: &vm_core::CodeBlockTable, out: &mut Vec<String>, depth: usize) {
        use vm_core::code_blocks::CodeBlock::*;
        if depth > 64 {
            return;
        }
        match b {
            Join(j) => {
                walk(j.first(), t, out, depth + 1);
                walk(j.second(), t, out, depth + 1);
            }
            Split(s) => {
                walk(s.on_true(), t, out, depth + 1);
                walk(s.on_false(), t, out, depth + 1);
            }
            Loop(l) => walk(l.body(), t, out, depth + 1),
            Call(c) => {
                out.push(format!("call {:?} present={}", c.fn_hash(), t.get(c.fn_hash()).is_some()));
                if let Some(b2) = t.get(c.fn_hash()) {
                    walk(b2, t, out, depth + 1);
                }
            }
            _ => {}
        }
    }
    walk(p.root(), p.cb_table(), &mut v, 0);
    v
}

pub fn check_program(choices: &Vec<u16>, walk_table: bool) -> Out {
    let src = srcgen::generate(choices, &prog_cfg(), &["kfoo".into(), "kbar".into()], !walk_table);
    let cj = |extra: &str| json!({"kind": "program", "src": src.text, "detail": extra});
    let ast = match vm::catch(|| ProgramAst::parse(&src.text)) {
        Err(p) => return Err(Viol::new("C10:parse-panic", p, cj(""))),
        Ok(Err(e)) => return Err(Viol::new("C10:generated-source-rejected", format!("{e}"), cj(""))),
        Ok(Ok(a)) => a,
    };
    let stack: Vec<u64> = choices.iter().take(12).map(|c| *c as u64).collect();
    let classes = roundtrip_program_ast(&ast, &src.text, Some(stack))?;
    let mut forms: Vec<&str> = src.forms_used.clone();
    forms.sort();
    forms.dedup();
    let nontrivial = forms.len() >= 5 || src.nested || src.has_imports;
    Ok(Info {
        nontrivial: if nontrivial { Some(fp_str(&src.text)) } else { None },
        classes,
        sample: Some(json!({"src": src.text.chars().take(900).collect::<String>(), "distinct_forms": forms.len()})),
        extra_nontrivial: forms.iter().map(|f| fp_str(f) | 1 << 63).collect(),
        ..Info::default()
    })
}

/// entry point of the `ast_text` fuzz target: arbitrary text; a source the parser rejects is fine,
/// a panic is not, and whatever parses must survive the same round trips as generated sources
pub fn check_source(text: &str) -> Result<(), Viol> {
    let cj = || json!({"kind": "program", "src": text, "detail": "fuzz"});
    let ast = match vm::catch(|| ProgramAst::parse(text)) {
        Err(p) => return Err(Viol::new("C10:parse-panic", p, cj())),
        Ok(Err(_)) => return Ok(()),
        Ok(Ok(a)) => a,
    };
    roundtrip_program_ast(&ast, text, None).map(|_| ())
}

/// serialise / deserialise (with and without imports, with reloaded source locations), compile
/// both ASTs, optionally execute both programs
pub fn roundtrip_program_ast(ast: &ProgramAst, text: &str, exec_stack: Option<Vec<u64>>) -> Result<Vec<String>, Viol> {
    let cj = |extra: &str| json!({"kind": "program", "src": text, "detail": extra});
    let mut locations = Vec::new();
    ast.write_source_locations(&mut locations);
    let mut decoded_full = None;
    for ser_imports in [true, false] {
        let bytes = vm::catch(|| ast.to_bytes(AstSerdeOptions::new(ser_imports))).map_err(|p| Viol::new("C10:to-bytes-panic", p, cj("")))?;
        let mut back = match vm::catch(|| ProgramAst::from_bytes(&bytes)) {
            Err(p) => return Err(Viol::new("C10:from-bytes-panic", p, cj(""))),
            Ok(Err(e)) => return Err(Viol::new("C10:program-ast-undecodable", format!("serialised ProgramAst (imports={ser_imports}) does not decode: {e}"), cj(""))),
            Ok(Ok(b)) => b,
        };
        if let Err(e) = back.load_source_locations(&mut SliceReader::new(&locations)) {
            return Err(Viol::new("C10:locations-reload", format!("source locations do not reload: {e}"), cj("")));
        }
        let back = if ser_imports { back } else { back.with_import_info(ast.import_info().clone()) };
        if &back != ast {
            return Err(Viol::new(format!("C10:program-ast-roundtrip:imports={ser_imports}"), "ProgramAst differs after to_bytes/from_bytes (+ reloaded locations)", cj("")));
        }
        // serialising the decoded AST again gives the same bytes
        let again = back.to_bytes(AstSerdeOptions::new(ser_imports));
        if again != bytes {
            return Err(Viol::new("C10:program-ast-reencode", "re-encoding the decoded ProgramAst yields other bytes", cj("")));
        }
        if ser_imports {
            decoded_full = Some(back);
        }
    }
    // compile original and round-tripped AST: same root, kernel, call targets; same behaviour
    let back = decoded_full.unwrap();
    let (p1, p2) = with_asm(|a| (a.compile_ast(ast).map_err(|e| format!("{e}")), a.compile_ast(&back).map_err(|e| format!("{e}")))).map_err(|e| Viol::new("C10:compile-panic", e, cj("")))?;
    let mut classes = vec!["program".to_string()];
    match (p1, p2) {
        (Ok(p1), Ok(p2)) => {
            if cb_hashes(&p1, text) != cb_hashes(&p2, text) {
                return Err(Viol::new("C10:recompile-differs", "compiling the round-tripped AST gives another MAST root / kernel / call-target set", cj("")));
            }
            // adv.insert_mem copies the memory range [a, b) named by two stack items into the advice
            // map; with generated stack items the range can span billions of words and the
            // allocation aborts the process (an out-of-memory abort, exit 2, not a verdict): such
            // sources are round-tripped and compiled but not executed
            let exec_stack = if text.contains("adv.insert_mem") { None } else { exec_stack };
            if let Some(stack) = exec_stack {
                let case = vm::Case { stack, adv: vec![1, 2, 3, 4, 5, 6, 7, 8], ..vm::Case::default() };
                let o = |p: &vm_core::Program| match vm::run(p, &case, ExecutionOptions::new(Some(20_000), 64, false).unwrap()) {
                    vm::Ran::Ok(t, _) => format!("ok {:?}", vm::outputs_top_first(&t)),
                    vm::Ran::Err(e, _) => format!("err {}", crate::diff::err_kind(&e)),
                    vm::Ran::Panic(p) => format!("panic {p}"),
                };
                let (o1, o2) = (o(&p1), o(&p2));
                if o1.starts_with("panic") && std::env::var("VERIF_DEBUG").is_ok() {
                    eprintln!("EXECPANIC {}", o1);
                }
                if o1 != o2 {
                    return Err(Viol::new("C10:execution-differs", format!("{o1} vs {o2}"), cj("")));
                }
                classes.push(format!("executes:{}", o1.split(' ').next().unwrap()));
            }
        }
        (Err(e1), Err(e2)) => {
            if e1 != e2 {
                return Err(Viol::new("C10:compile-error-differs", format!("{e1} vs {e2}"), cj("")));
            }
            classes.push("does-not-compile".into());
            if std::env::var("VERIF_DEBUG").is_ok() {
                eprintln!("NOCOMPILE {e1}");
            }
        }
        (a, b) => return Err(Viol::new("C10:compile-outcome-differs", format!("original: {:?}, round-tripped: {:?}", a.map(|_| ()), b.map(|_| ())), cj(""))),
    }
    Ok(classes)
}

pub fn check_module(choices: &Vec<u16>) -> Out {
    let src = srcgen::generate(choices, &mod_cfg(), &[], true);
    let cj = |extra: &str| json!({"kind": "module", "src": src.text, "detail": extra});
    let ast = match vm::catch(|| ModuleAst::parse(&src.text)) {
        Err(p) => return Err(Viol::new("C10:parse-panic", p, cj(""))),
        Ok(Err(e)) => return Err(Viol::new("C10:generated-source-rejected", format!("{e}"), cj(""))),
        Ok(Ok(a)) => a,
    };
    let mut locations = Vec::new();
    ast.write_source_locations(&mut locations);
    for ser_imports in [true, false] {
        let bytes = ast.to_bytes(AstSerdeOptions::new(ser_imports));
        let mut back = match vm::catch(|| ModuleAst::from_bytes(&bytes)) {
            Err(p) => return Err(Viol::new("C10:from-bytes-panic", p, cj(""))),
            Ok(Err(e)) => return Err(Viol::new("C10:module-ast-undecodable", format!("{e}"), cj(""))),
            Ok(Ok(b)) => b,
        };
        if let Err(e) = back.load_source_locations(&mut SliceReader::new(&locations)) {
            return Err(Viol::new("C10:locations-reload", format!("{e}"), cj("")));
        }
        let back = if ser_imports { back } else { back.with_import_info(ast.import_info().clone()) };
        if back != ast {
            return Err(Viol::new(format!("C10:module-ast-roundtrip:imports={ser_imports}"), "ModuleAst differs after to_bytes/from_bytes (+ reloaded locations)", cj("")));
        }
    }
    // library container: 1..4 copies of the module under different paths, with / without locations
    let mut ch = Ch::new(choices);
    let nmods = 1 + ch.pick(4);
    let with_loc = ch.chance(1, 2);
    let ns = LibraryNamespace::new("vlib").unwrap();
    let mods: Vec<Module> = (0..nmods).map(|i| Module::new(LibraryPath::new(format!("vlib::m{i}::leaf")).unwrap(), ast.clone())).collect();
    let deps = if ch.chance(1, 2) { vec![LibraryNamespace::new("std").unwrap()] } else { vec![] };
    let lib = MaslLibrary::new(ns, Version::default(), with_loc, mods, deps).map_err(|e| Viol::new("C10:library-new", format!("{e}"), cj("")))?;
    let bytes = lib.to_bytes();
    let back = match vm::catch(|| MaslLibrary::read_from_bytes(&bytes)) {
        Err(p) => return Err(Viol::new("C10:library-panic", p, cj(""))),
        Ok(Err(e)) => return Err(Viol::new("C10:library-undecodable", format!("{e}"), cj(""))),
        Ok(Ok(b)) => b,
    };
    let mut expect = lib.clone();
    if !with_loc {
        expect.clear_locations();
    }
    if back != expect {
        return Err(Viol::new(format!("C10:library-roundtrip:locations={with_loc}"), "MaslLibrary differs after write/read", cj("")));
    }
    // a program calling the first export compiles to the same root with the original and the re-read library
    let export = src.text.lines().filter_map(|l| l.strip_prefix("export.")).filter(|l| !l.contains("::")).map(|l| l.split('.').next().unwrap().to_string()).next();
    let mut classes = vec!["module".to_string(), format!("library-mods={nmods}"), format!("locations={with_loc}")];
    if let Some(ex) = export {
        let psrc = format!("use.vlib::m0::leaf\nbegin exec.leaf::{ex} call.leaf::{ex} end");
        let compile = |l: &MaslLibrary| -> Result<String, String> {
            vm::catch(|| {
                let a = Assembler::default().with_library(&stdlib::StdLibrary::default()).map_err(|e| format!("{e}"))?.with_library(l).map_err(|e| format!("{e}"))?;
                a.compile(&psrc).map(|p| format!("{:?}", cb_hashes(&p, ""))).map_err(|e| format!("{e}"))
            })
            .unwrap_or_else(|p| Err(format!("panic: {p}")))
        };
        let (a, b) = (compile(&lib), compile(&back));
        if a != b {
            return Err(Viol::new("C10:library-recompile-differs", format!("{:?} vs {:?}", a, b), cj(&psrc)));
        }
        classes.push(if a.is_ok() { "library-compiles".into() } else { "library-does-not-compile".into() });
        if a.is_err() && std::env::var("VERIF_DEBUG").is_ok() {
            eprintln!("LIBNOCOMPILE {:?}", a);
        }
    }
    Ok(Info { nontrivial: Some(fp_str(&src.text)), classes, sample: Some(json!({"module_src": src.text.chars().take(600).collect::<String>(), "library_modules": nmods})), ..Info::default() })
}

pub fn check_data(choices: &Vec<u16>) -> Out {
    let mut ch = Ch::new(choices);
    let cj = |what: &str| json!({"kind": "data", "what": what, "choices": choices});
    // Kernel with 0..255 digests, ProgramInfo
    let nk = [0usize, 1, 2, 3, 17, 255][ch.pick(6)];
    let ds: Vec<vm_core::crypto::hash::RpoDigest> = (0..nk).map(|i| [Felt::new(ch.felt()), Felt::new(i as u64), Felt::new(ch.felt()), Felt::new(ch.felt())].into()).collect();
    let kernel = Kernel::new(&ds).map_err(|e| Viol::new("C10:kernel-new", format!("{e}"), cj("kernel")))?;
    let kb = kernel.to_bytes();
    let k2 = Kernel::read_from_bytes(&kb).map_err(|e| Viol::new("C10:kernel-undecodable", format!("{e}"), cj("kernel")))?;
    if k2 != kernel {
        return Err(Viol::new("C10:kernel-roundtrip", "Kernel differs after round trip", cj("kernel")));
    }
    let info = ProgramInfo::new([Felt::new(ch.felt()), Felt::new(ch.felt()), Felt::new(ch.felt()), Felt::new(ch.felt())].into(), kernel.clone());
    let ib = info.to_bytes();
    let i2 = ProgramInfo::read_from_bytes(&ib).map_err(|e| Viol::new("C10:program-info-undecodable", format!("{e}"), cj("program info")))?;
    if i2 != info {
        return Err(Viol::new("C10:program-info-roundtrip", "ProgramInfo differs after round trip", cj("program info")));
    }
    // stack inputs 0..100
    let n = [0usize, 1, 15, 16, 17, 100][ch.pick(6)];
    let vals: Vec<u64> = (0..n).map(|_| ch.felt()).collect();
    let si = StackInputs::try_from_values(vals.iter().copied()).map_err(|e| Viol::new("C10:inputs-new", format!("{e}"), cj("stack inputs")))?;
    let si2 = StackInputs::read_from_bytes(&si.to_bytes()).map_err(|e| Viol::new("C10:inputs-undecodable", format!("{e}"), cj("stack inputs")))?;
    if si2.values() != si.values() {
        return Err(Viol::new("C10:inputs-roundtrip", "StackInputs differ after round trip", cj("stack inputs")));
    }
    // stack outputs with overflow
    let m = [0usize, 5, 16, 17, 40][ch.pick(5)];
    let st: Vec<u64> = (0..m).map(|_| ch.felt()).collect();
    let addrs: Vec<u64> = if m > 16 { (0..m - 15).map(|i| i as u64 * 3).collect() } else { vec![] };
    let so = StackOutputs::new(st, addrs).map_err(|e| Viol::new("C10:outputs-new", format!("{:?}", e), cj("stack outputs")))?;
    let so2 = StackOutputs::read_from_bytes(&so.to_bytes()).map_err(|e| Viol::new("C10:outputs-undecodable", format!("{e}"), cj("stack outputs")))?;
    if so2 != so {
        return Err(Viol::new("C10:outputs-roundtrip", "StackOutputs differ after round trip", cj("stack outputs")));
    }
    Ok(Info { nontrivial: Some(fp_str(&format!("{nk}|{n}|{m}|{:?}", &vals.iter().take(3).collect::<Vec<_>>()))), classes: vec![format!("kernel-procs={nk}"), format!("inputs={n}"), format!("outputs={m}")], sample: Some(json!({"kernel_procs": nk, "inputs": n, "outputs": m})), ..Info::default() })
}

pub fn run(ctx: &Ctx) {
    ctx.set_rule("source text from a grammar over the parser's complete instruction table (every form of the table is emitted in the first cases, then random), nested bodies, docs, imports with aliases, unused imports, re-exports, constants with expressions, 0..4 procedures with locals, programs and modules; libraries of 1..4 modules with/without source locations and dependencies; data values (Kernel with 0..255 digests, ProgramInfo, StackInputs 0..100, StackOutputs with overflow); oracle: from_bytes(to_bytes(x)) with reloaded locations (and re-attached imports when not serialised) == x for both import settings, re-encoding gives the same bytes, compiling original and round-tripped AST gives the same MAST root, kernel and call-target set and the same execution outcome, libraries equal and equally usable; non-trivial = >= 5 distinct instruction forms or nesting or imports; distinct by source text, plus one fingerprint per instruction form exercised");
    ctx.set_extra("instruction_forms_in_table", json!(FORMS.len() + LOCAL_FORMS.len() + 5));
    ctx.run("program-table-walk", ctx.n(400, 3_000), || vec(any::<u16>(), 300..2500), |c| check_program(c, true));
    ctx.run("program", ctx.n(4000, 60_000), || vec(any::<u16>(), 20..1500), |c| check_program(c, false));
    ctx.run("module+library", ctx.n(2500, 40_000), || vec(any::<u16>(), 20..1200), check_module);
    ctx.run("data", ctx.n(3000, 100_000), || vec(any::<u16>(), 60..500), check_data);
    // execution proofs: one honest proof per standard option set (hash function / security level)
    // and program shape; bytes -> proof -> bytes is the identity, the decoded proof is equal, keeps
    // its hash function and security level, and still verifies
    let mut items: Vec<(usize, &'static str, Vec<u64>)> = vec![];
    for set in 0..4 {
        items.push((set, "begin push.1 push.2 add end", vec![]));
        items.push((set, "begin repeat.20 dup mul end swap drop end", (1..=18).collect()));
    }
    ctx.run_list("proofs", &items, |(set, src, stack)| {
        let case = vm::Case { src: src.to_string(), stack: stack.clone(), ..vm::Case::default() };
        let cj = || json!({"kind": "proof", "option_set": crate::props::c01::SETS[*set], "src": src, "stack": stack});
        let (opts, hash_fn, level) = crate::props::c01::options(*set);
        let program = match vm::assemble(&case, false) {
            vm::Assembled::Ok(p) => p,
            _ => return Err(Viol::new("C10:setup", "fixed program does not assemble", cj())),
        };
        let proved = vm::catch(|| prover::prove(&program, case.stack_inputs(), case.host(), opts)).map_err(|p| Viol::new("C10:prove-panic", p, cj()))?;
        let (outputs, proof) = proved.map_err(|e| Viol::new("C10:setup", format!("proving failed: {e}"), cj()))?;
        let bytes = proof.to_bytes();
        let back = match vm::catch(|| miden::ExecutionProof::from_bytes(&bytes)) {
            Err(p) => return Err(Viol::new("C10:proof-from-bytes-panic", p, cj())),
            Ok(Err(e)) => return Err(Viol::new("C10:proof-undecodable", format!("a serialised proof does not decode: {e}"), cj())),
            Ok(Ok(b)) => b,
        };
        if back != proof || back.hash_fn() != hash_fn || back.hash_fn() != proof.hash_fn() {
            return Err(Viol::new("C10:proof-roundtrip", format!("proof differs after to_bytes/from_bytes (hash function {:?} -> {:?})", proof.hash_fn(), back.hash_fn()), cj()));
        }
        if back.to_bytes() != bytes {
            return Err(Viol::new("C10:proof-reencode", "re-encoding the decoded proof yields other bytes", cj()));
        }
        if back.security_level() != proof.security_level() || proof.security_level() < level {
            return Err(Viol::new("C10:proof-roundtrip", "security level changes over the round trip", cj()));
        }
        let info = ProgramInfo::new(program.hash(), program.kernel().clone());
        match vm::catch(|| verifier::verify(info, case.stack_inputs(), outputs, back)) {
            Ok(Ok(_)) => Ok(Info { nontrivial: Some(fp_str(&format!("{set}{src}"))), classes: vec![format!("proof:{}", crate::props::c01::SETS[*set])], ..Info::default() }),
            Ok(Err(e)) => Err(Viol::new("C10:proof-roundtrip", format!("the decoded proof no longer verifies: {e}"), cj())),
            Err(p) => Err(Viol::new("C10:verify-panic", p, cj())),
        }
    });
}

pub fn replay(ctx: &Ctx, v: &serde_json::Value) {
    let c = &v["case"];
    let src = c["src"].as_str().unwrap_or("");
    let sig = v["signature"].as_str().unwrap_or("C10:replay");
    let out = (|| -> Out {
        match c["kind"].as_str() {
            Some("program") => {
                let ast = ProgramAst::parse(src).map_err(|e| Viol::new(sig, format!("{e}"), c.clone()))?;
                let mut loc = Vec::new();
                ast.write_source_locations(&mut loc);
                for si in [true, false] {
                    let mut back = ProgramAst::from_bytes(&ast.to_bytes(AstSerdeOptions::new(si))).map_err(|e| Viol::new(sig, format!("{e}"), c.clone()))?;
                    back.load_source_locations(&mut SliceReader::new(&loc)).map_err(|e| Viol::new(sig, format!("{e}"), c.clone()))?;
                    let back = if si { back } else { back.with_import_info(ast.import_info().clone()) };
                    if back != ast {
                        return Err(Viol::new(sig, "ProgramAst round trip differs", c.clone()));
                    }
                }
                Ok(Info::default())
            }
            Some("module") => {
                let ast = ModuleAst::parse(src).map_err(|e| Viol::new(sig, format!("{e}"), c.clone()))?;
                let mut loc = Vec::new();
                ast.write_source_locations(&mut loc);
                for si in [true, false] {
                    let mut back = ModuleAst::from_bytes(&ast.to_bytes(AstSerdeOptions::new(si))).map_err(|e| Viol::new(sig, format!("{e}"), c.clone()))?;
                    back.load_source_locations(&mut SliceReader::new(&loc)).map_err(|e| Viol::new(sig, format!("{e}"), c.clone()))?;
                    let back = if si { back } else { back.with_import_info(ast.import_info().clone()) };
                    if back != ast {
                        return Err(Viol::new(sig, "ModuleAst round trip differs", c.clone()));
                    }
                }
                Ok(Info::default())
            }
            _ => {
                let ch: Vec<u16> = c["choices"].as_array().map(|a| a.iter().map(|x| x.as_u64().unwrap_or(0) as u16).collect()).unwrap_or_default();
                check_data(&ch)
            }
        }
    })();
    ctx.record("replay", out);
}
