//! C08 — the program commitment is the specified MAST hash of the executable code.

pub use vm_core::{Felt, Operation};
use crate::common::*;
use crate::engine::{fp_str, Ctx, Info, Out, Viol};
use crate::gen::{generate, GenCfg};
use crate::model::{render_with, RenderOpts};
use crate::tracekit::opc;
use crate::vm::{self, Assembled, Case, Ran};
use processor::ExecutionOptions;
use proptest::collection::vec;
use proptest::prelude::*;
use serde_json::json;
use vm_core::code_blocks::{CodeBlock, OpBatch};
use vm_core::crypto::hash::{Rpo256, RpoDigest};
use vm_core::{FieldElement, StarkField};

/// every operation that may appear in a span, with the opcode documented in
/// docs/src/design/stack/op_constraints.md
pub fn palette() -> Vec<(Operation, u8)> {
    use Operation::*;
    vec![
        (Noop, opc::NOOP), (Eqz, opc::EQZ), (Neg, opc::NEG), (Inv, opc::INV), (Incr, opc::INCR), (Not, opc::NOT),
        (FmpAdd, opc::FMPADD), (MLoad, opc::MLOAD), (Swap, opc::SWAP), (Caller, opc::CALLER),
        (MovUp2, opc::MOVUP2), (MovDn2, opc::MOVDN2), (MovUp3, opc::MOVUP3), (MovDn3, opc::MOVDN3),
        (AdvPopW, opc::ADVPOPW), (Expacc, opc::EXPACC), (MovUp4, opc::MOVUP4), (MovDn4, opc::MOVDN4),
        (MovUp5, opc::MOVUP5), (MovDn5, opc::MOVDN5), (MovUp6, opc::MOVUP6), (MovDn6, opc::MOVDN6),
        (MovUp7, opc::MOVUP7), (MovDn7, opc::MOVDN7), (SwapW, opc::SWAPW), (Ext2Mul, opc::EXT2MUL),
        (MovUp8, opc::MOVUP8), (MovDn8, opc::MOVDN8), (SwapW2, opc::SWAPW2), (SwapW3, opc::SWAPW3), (SwapDW, opc::SWAPDW),
        (Assert(0), opc::ASSERT), (Eq, opc::EQ), (Add, opc::ADD), (Mul, opc::MUL), (And, opc::AND), (Or, opc::OR),
        (U32and, opc::U32AND), (U32xor, opc::U32XOR), (FriE2F4, opc::FRIE2F4), (Drop, opc::DROP), (CSwap, opc::CSWAP),
        (CSwapW, opc::CSWAPW), (MLoadW, opc::MLOADW), (MStore, opc::MSTORE), (MStoreW, opc::MSTOREW), (FmpUpdate, opc::FMPUPDATE),
        (Pad, opc::PAD), (Dup0, opc::DUP0), (Dup1, opc::DUP1), (Dup2, opc::DUP2), (Dup3, opc::DUP3), (Dup4, opc::DUP4),
        (Dup5, opc::DUP5), (Dup6, opc::DUP6), (Dup7, opc::DUP7), (Dup9, opc::DUP9), (Dup11, opc::DUP11), (Dup13, opc::DUP13),
        (Dup15, opc::DUP15), (AdvPop, opc::ADVPOP), (SDepth, opc::SDEPTH), (Clk, opc::CLK),
        (U32add, opc::U32ADD), (U32sub, opc::U32SUB), (U32mul, opc::U32MUL), (U32div, opc::U32DIV), (U32split, opc::U32SPLIT),
        (U32assert2(Felt::ZERO), opc::U32ASSERT2), (U32add3, opc::U32ADD3), (U32madd, opc::U32MADD),
        (HPerm, opc::HPERM), (MpVerify, opc::MPVERIFY), (Pipe, opc::PIPE), (MStream, opc::MSTREAM), (RCombBase, opc::RCOMBBASE),
        (MrUpdate, opc::MRUPDATE), (Push(Felt::ZERO), opc::PUSH),
    ]
}

pub fn control_opcodes() -> Vec<(Operation, u8)> {
    use Operation::*;
    vec![
        (Split, opc::SPLIT), (Loop, opc::LOOP), (Span, opc::SPAN), (Join, opc::JOIN), (Dyn, opc::DYN), (SysCall, opc::SYSCALL),
        (Call, opc::CALL), (End, opc::END), (Repeat, opc::REPEAT), (Respan, opc::RESPAN), (Halt, opc::HALT),
    ]
}

/// the documented rules as a validity predicate over the batches; returns the decoded operation
/// sequence (with padding NOOPs) and all groups
pub fn validate_batches(batches: &[OpBatch], desc: &dyn Fn() -> serde_json::Value) -> Result<(Vec<(u8, Option<u64>)>, Vec<Felt>), Viol> {
    let mut decoded: Vec<(u8, Option<u64>)> = vec![];
    let mut all_groups = vec![];
    if batches.is_empty() {
        return Err(Viol::new("C08:no-batches", "span without batches", desc()));
    }
    for (bi, b) in batches.iter().enumerate() {
        let groups = b.groups();
        all_groups.extend_from_slice(groups);
        let counts = b.op_counts();
        let ng = b.num_groups();
        if ng == 0 || ng > 8 {
            return Err(Viol::new("C08:batch-groups", format!("batch {bi} has {ng} groups"), desc()));
        }
        // walk the groups: an operation group is followed (not necessarily immediately) by the
        // immediates of its operations, each in the next free group of the same batch
        let mut is_imm = [false; 8];
        let mut next_free = 1usize;
        let mut batch_ops: Vec<(u8, Option<u64>)> = vec![];
        for g in 0..8 {
            if is_imm[g] {
                if counts[g] != 0 {
                    return Err(Viol::new("C08:imm-group-count", format!("batch {bi} group {g} holds an immediate but has op count {}", counts[g]), desc()));
                }
                continue;
            }
            if g >= ng {
                if groups[g] != Felt::ZERO {
                    return Err(Viol::new("C08:padding-group", format!("batch {bi} group {g} beyond num_groups is not zero"), desc()));
                }
                continue;
            }
            if next_free <= g {
                next_free = g + 1;
            }
            let n = counts[g];
            if n > 9 {
                return Err(Viol::new("C08:group-ops", format!("batch {bi} group {g} holds {n} operations"), desc()));
            }
            let mut v = groups[g].as_int();
            for k in 0..n {
                let code = (v & 0x7f) as u8;
                v >>= 7;
                if code == opc::PUSH {
                    if k == 8 {
                        return Err(Viol::new("C08:imm-op-last", format!("batch {bi} group {g}: an operation with an immediate is the last of its group"), desc()));
                    }
                    if next_free >= 8 {
                        return Err(Viol::new("C08:imm-no-room", format!("batch {bi} group {g}: no group left for an immediate"), desc()));
                    }
                    is_imm[next_free] = true;
                    batch_ops.push((code, Some(groups[next_free].as_int())));
                    next_free += 1;
                } else {
                    batch_ops.push((code, None));
                }
            }
            if v != 0 {
                return Err(Viol::new("C08:group-value", format!("batch {bi} group {g} encodes more than its {n} counted operations"), desc()));
            }
        }
        if next_free > ng.max(1) && next_free > ng {
            return Err(Viol::new("C08:num-groups", format!("batch {bi}: {next_free} groups used, num_groups {ng}"), desc()));
        }
        // the batch's own operation list must be what its groups decode to
        let own: Vec<(u8, Option<u64>)> = b.ops().iter().map(|o| (o.op_code(), o.imm_value().map(|f| f.as_int()))).collect();
        if own != batch_ops {
            return Err(Viol::new("C08:groups-vs-ops", format!("batch {bi}: groups decode to {:?}, ops() lists {:?}", batch_ops, own), desc()));
        }
        decoded.extend(batch_ops);
    }
    Ok((decoded, all_groups))
}

fn same_up_to_noops(orig: &[(u8, Option<u64>)], dec: &[(u8, Option<u64>)]) -> bool {
    let mut j = 0;
    for d in dec {
        if j < orig.len() && *d == orig[j] {
            j += 1;
        } else if d.0 == opc::NOOP {
            continue;
        } else {
            return false;
        }
    }
    j == orig.len()
}

/// Reference batcher written from docs/src/design/programs.md ("Span block"): operations fill a
/// group (9 per group; an operation with an immediate never in the ninth place, so that a NOOP can
/// follow it), the immediate of an operation goes to the next unused group of the same batch, a
/// new group takes the next unused group, and a new batch is started only when the operation (and
/// its immediate) does not fit into the current one ("breaks the sequence into batches": 8 pushes
/// give a first batch with 7 PUSH + NOOP and 7 immediates, 72 operations without immediates fit
/// one batch). Returns the group values, 8 per batch. NOOP is opcode 0, so padding is invisible.
pub fn reference_groups(ops: &[Operation]) -> Vec<Felt> {
    let mut out: Vec<Felt> = vec![];
    let mut groups = [0u64; 8];
    let mut imm = [None::<u64>; 8];
    let mut cur = 0usize; // index of the group receiving operations
    let mut next_free = 1usize; // next unused group of the batch
    let mut n_in_group = 0usize;
    let flush = |groups: &mut [u64; 8], imm: &mut [Option<u64>; 8], out: &mut Vec<Felt>| {
        for g in 0..8 {
            out.push(match imm[g] {
                Some(v) => Felt::new(v),
                None => Felt::new(groups[g]),
            });
        }
        *groups = [0u64; 8];
        *imm = [None; 8];
    };
    for op in ops {
        let has_imm = op.imm_value().is_some();
        let need = if has_imm { 1 } else { 0 };
        let fits_group = if has_imm { n_in_group <= 7 } else { n_in_group <= 8 };
        if !(fits_group && next_free + need <= 8) {
            // a new group in this batch, if it and the immediate still have room; else a new batch
            if n_in_group > 0 && !fits_group && next_free + 1 + need <= 8 {
                cur = next_free;
                next_free += 1;
                n_in_group = 0;
            } else {
                flush(&mut groups, &mut imm, &mut out);
                cur = 0;
                next_free = 1;
                n_in_group = 0;
            }
        }
        groups[cur] |= (op.op_code() as u64) << (7 * n_in_group);
        n_in_group += 1;
        if let Some(v) = op.imm_value() {
            imm[next_free] = Some(v.as_int());
            next_free += 1;
        }
    }
    flush(&mut groups, &mut imm, &mut out);
    out
}

pub fn check_ops(ops: &[Operation]) -> Out {
    let desc = || json!({"ops": ops.iter().map(|o| format!("{}", o)).collect::<Vec<_>>()});
    let span = vm::catch(|| vm_core::code_blocks::Span::new(ops.to_vec())).map_err(|p| Viol::new("C08:span-panic", p, desc()))?;
    let (decoded, groups) = validate_batches(span.op_batches(), &desc)?;
    let orig: Vec<(u8, Option<u64>)> = ops.iter().map(|o| (o.op_code(), o.imm_value().map(|f| f.as_int()))).collect();
    if !same_up_to_noops(&orig, &decoded) {
        return Err(Viol::new("C08:decode-back", format!("groups decode to {:?}", decoded), desc()));
    }
    // the batching is the one the documents describe, not merely one that obeys the rules
    let reference = reference_groups(ops);
    if reference != groups {
        let first = reference.iter().zip(groups.iter()).position(|(a, b)| a != b).unwrap_or(reference.len().min(groups.len()));
        return Err(Viol::new(
            "C08:batching-differs-from-spec",
            format!(
                "{} groups in {} batches, the reference batcher gives {} groups; first difference at group {} (batch {}, group {})",
                groups.len(),
                groups.len() / 8,
                reference.len(),
                first,
                first / 8,
                first % 8
            ),
            desc(),
        ));
    }
    let want = Rpo256::hash_elements(&groups);
    if span.hash() != want {
        return Err(Viol::new("C08:span-hash", "span hash is not the RPO hash of its operation batches", desc()));
    }
    let nb = span.op_batches().len();
    let npush = ops.iter().filter(|o| o.imm_value().is_some()).count();
    Ok(Info {
        nontrivial: if groups.len() > 8 || npush > 0 || ops.len() > 9 { Some(fp_str(&format!("{:?}", orig))) } else { None },
        classes: vec![format!("batches={}", nb.min(9))],
        sample: if nb >= 2 && npush > 2 { Some(desc()) } else { None },
        ..Info::default()
    })
}

/// bottom-up recomputation of the MAST root through public accessors
pub fn spec_hash(b: &CodeBlock, cbt: Option<&vm_core::CodeBlockTable>, desc: &dyn Fn() -> serde_json::Value) -> Result<RpoDigest, Viol> {
    let zero = RpoDigest::default();
    let h = match b {
        CodeBlock::Span(s) => {
            let (_, groups) = validate_batches(s.op_batches(), desc)?;
            Rpo256::hash_elements(&groups)
        }
        CodeBlock::Join(j) => Rpo256::merge_in_domain(&[spec_hash(j.first(), cbt, desc)?, spec_hash(j.second(), cbt, desc)?], Felt::new(opc::JOIN as u64)),
        CodeBlock::Split(s) => Rpo256::merge_in_domain(&[spec_hash(s.on_true(), cbt, desc)?, spec_hash(s.on_false(), cbt, desc)?], Felt::new(opc::SPLIT as u64)),
        CodeBlock::Loop(l) => Rpo256::merge_in_domain(&[spec_hash(l.body(), cbt, desc)?, zero], Felt::new(opc::LOOP as u64)),
        CodeBlock::Call(c) => {
            let d = if c.is_syscall() { opc::SYSCALL } else { opc::CALL };
            // the callee registered under this hash must itself hash to it
            if let Some(body) = cbt.and_then(|t| t.get(c.fn_hash())) {
                if spec_hash(body, cbt, desc)? != c.fn_hash() {
                    return Err(Viol::new("C08:cb-table-hash", "a procedure body in the code block table does not hash to the key it is stored under", desc()));
                }
            }
            Rpo256::merge_in_domain(&[c.fn_hash(), zero], Felt::new(d as u64))
        }
        CodeBlock::Dyn(_) => Rpo256::merge_in_domain(&[zero, zero], Felt::new(opc::DYN as u64)),
        CodeBlock::Proxy(p) => p.hash(),
    };
    if h != b.hash() {
        return Err(Viol::new(format!("C08:block-hash:{}", block_kind(b)), format!("{} block hash differs from the specified hash of its children", block_kind(b)), desc()));
    }
    Ok(h)
}

fn block_kind(b: &CodeBlock) -> &'static str {
    match b {
        CodeBlock::Span(_) => "span",
        CodeBlock::Join(_) => "join",
        CodeBlock::Split(_) => "split",
        CodeBlock::Loop(_) => "loop",
        CodeBlock::Call(c) => {
            if c.is_syscall() {
                "syscall"
            } else {
                "call"
            }
        }
        CodeBlock::Dyn(_) => "dyn",
        CodeBlock::Proxy(_) => "proxy",
    }
}

fn count_blocks(b: &CodeBlock, acc: &mut std::collections::BTreeMap<&'static str, usize>) {
    *acc.entry(block_kind(b)).or_insert(0) += 1;
    match b {
        CodeBlock::Join(j) => {
            count_blocks(j.first(), acc);
            count_blocks(j.second(), acc);
        }
        CodeBlock::Split(s) => {
            count_blocks(s.on_true(), acc);
            count_blocks(s.on_false(), acc);
        }
        CodeBlock::Loop(l) => count_blocks(l.body(), acc),
        _ => {}
    }
}

fn cfg() -> GenCfg {
    GenCfg { max_nodes: 40, ..full_cfg() }
}

pub fn check_program(choices: &Vec<u16>) -> Out {
    let g = generate(choices, cfg());
    let case = &g.case;
    let cj = |alt: &str| json!({"case": case.to_json(), "variant_src": alt});
    let desc = || cj("");
    let program = match vm::assemble(case, false) {
        Assembled::Ok(p) => p,
        Assembled::Err(_) => return Ok(Info { classes: vec!["skipped:asm".into()], ..Info::default() }),
        Assembled::Panic(p) => return Err(Viol::new("C08:asm-panic", p, desc())),
    };
    // (1) specified hash of the whole MAST and of every procedure body in the cb table
    let root = spec_hash(program.root(), Some(program.cb_table()), &desc)?;
    if root != program.hash() {
        return Err(Viol::new("C08:program-hash", "Program::hash() differs from the hash of its root", desc()));
    }
    let mut kinds = std::collections::BTreeMap::new();
    count_blocks(program.root(), &mut kinds);
    // (2) invariance: comments, whitespace, procedure names, debug mode, extra decorators
    let variants: Vec<(&str, String, bool)> = vec![
        ("comments", render_with(&g.prog, &RenderOpts { comments: true, ..RenderOpts::default() }), false),
        ("whitespace", case.src.replace(' ', "   \n\t ").replace("\n\n", "\n"), false),
        ("rename", {
            let mut p2 = g.prog.clone();
            for (i, pr) in p2.procs.iter_mut().enumerate() {
                pr.name = format!("renamed_procedure_{}_x", i);
            }
            render_with(&p2, &RenderOpts::default())
        }, false),
        ("debug-mode", case.src.clone(), true),
        ("no-decorators", render_with(&g.prog, &RenderOpts { strip_decorators: true, ..RenderOpts::default() }), false),
    ];
    for (label, src, dbg) in &variants {
        let c2 = Case { src: src.clone(), ..case.clone() };
        match vm::assemble(&c2, *dbg) {
            Assembled::Ok(p2) => {
                if p2.hash() != program.hash() {
                    return Err(Viol::new(format!("C08:hash-changed:{label}"), format!("program hash changes under '{label}'"), cj(src)));
                }
            }
            Assembled::Err(e) => return Err(Viol::new(format!("C08:variant-rejected:{label}"), format!("variant '{label}' does not assemble: {e}"), cj(src))),
            Assembled::Panic(p) => return Err(Viol::new(format!("C08:variant-panic:{label}"), p, cj(src))),
        }
    }
    // (3) sensitivity: change one pushed immediate / insert one operation in main
    let mut classes: Vec<String> = kinds.iter().map(|(k, v)| format!("{}:{}", k, (*v).min(5))).collect();
    if let Some(pos) = case.src.rfind("begin\n") {
        let src = format!("{}begin\npush.{} drop {}", &case.src[..pos], 77_000 + choices.len(), &case.src[pos + 6..]);
        let c2 = Case { src: src.clone(), ..case.clone() };
        if let Assembled::Ok(p2) = vm::assemble(&c2, false) {
            if p2.hash() == program.hash() {
                return Err(Viol::new("C08:hash-insensitive:inserted-ops", "inserting operations does not change the program hash", cj(&src)));
            }
            let src3 = src.replacen(&format!("push.{}", 77_000 + choices.len()), &format!("push.{}", 78_000 + choices.len()), 1);
            if let Assembled::Ok(p3) = vm::assemble(&Case { src: src3.clone(), ..case.clone() }, false) {
                if p3.hash() == p2.hash() {
                    return Err(Viol::new("C08:hash-insensitive:immediate", "changing an immediate does not change the program hash", cj(&src3)));
                }
            }
            classes.push("sensitivity".into());
        }
    }
    // (4) the hash recorded by an execution equals the program hash
    if let Ran::Ok(t, _) = vm::run(&program, case, ExecutionOptions::default()) {
        if *t.program_hash() != program.hash() {
            return Err(Viol::new("C08:trace-hash", "ExecutionTrace::program_hash differs from Program::hash", desc()));
        }
        classes.push("executed".into());
    }
    let nontrivial = kinds.len() >= 2;
    Ok(Info {
        nontrivial: if nontrivial { Some(fp_str(&format!("{:?}|{}", kinds, case.src.len()))) } else { None },
        classes,
        sample: Some(json!({"src": case.src, "kernel": case.kernel, "blocks": kinds})),
        ..Info::default()
    })
}

fn arb_ops(choices: &Vec<u16>) -> Vec<Operation> {
    let pal = palette();
    let mut ch = crate::gen::Ch::new(choices);
    let push_bias = ch.pick(4);
    let n = 1 + ch.pick(choices.len().max(2));
    (0..n)
        .map(|_| {
            let is_push = match push_bias {
                0 => ch.chance(1, 20),
                1 => ch.chance(1, 4),
                2 => ch.chance(1, 2),
                _ => ch.chance(9, 10),
            };
            if is_push {
                Operation::Push(Felt::new(ch.felt()))
            } else {
                pal[ch.pick(pal.len() - 1)].0
            }
        })
        .collect()
}

pub fn run(ctx: &Ctx) {
    ctx.set_rule("(a) every push/non-push pattern up to a bounded length, exhaustively, over three operation palettes; (b) random operation sequences up to 700 operations with random immediates; (c) MASTs of generated programs: batches satisfy the documented rules (<= 8 groups, <= 9 ops per group, immediates in following groups of the same batch, an immediate-carrying op never last in its group, groups decode back to the sequence up to NOOPs), span hash = RPO hash_elements of the batches, control-block hashes = domain-separated RPO merges recomputed bottom-up through public accessors; hash invariant under comments/whitespace/renaming/debug mode/decorators and sensitive to operations and immediates; non-trivial = >= 2 groups or an immediate or a control block; distinct by operation sequence / block census");
    // opcode table
    let mut table = palette();
    table.extend(control_opcodes());
    ctx.run_list("opcodes", &table, |(op, code)| {
        if op.op_code() != *code {
            return Err(Viol::new("C08:opcode", format!("{} has opcode {}, documented {}", op, op.op_code(), code), json!({"op": format!("{}", op)})));
        }
        Ok(Info { nontrivial: Some(*code as u64), classes: vec!["opcode".into()], ..Info::default() })
    });
    // (a) exhaustive patterns
    let maxlen = if ctx.quick() { 13 } else { 18 };
    let pals: [(Operation, fn(usize) -> Operation); 3] = [
        (Operation::Add, |i| Operation::Push(Felt::new(i as u64 + 1))),
        (Operation::Noop, |i| Operation::Push(Felt::new(crate::fe::P - 1 - i as u64))),
        (Operation::Dup15, |_| Operation::Push(Felt::ZERO)),
    ];
    let mut patterns: Vec<(usize, u32, usize)> = vec![];
    for len in 1..=maxlen {
        for bits in 0..(1u32 << len) {
            patterns.push((len, bits, (bits as usize + len) % 3));
        }
    }
    ctx.run_list("patterns", &patterns, |&(len, bits, p)| {
        let ops: Vec<Operation> = (0..len).map(|i| if bits >> i & 1 == 1 { (pals[p].1)(i) } else { pals[p].0 }).collect();
        check_ops(&ops)
    });
    // long runs around group and batch boundaries: k non-push ops followed by j pushes
    let mut edge: Vec<(usize, usize, usize)> = vec![];
    for k in 0..=75 {
        for j in 0..=9 {
            for tail in [0usize, 1, 9] {
                edge.push((k, j, tail));
            }
        }
    }
    ctx.run_list("boundaries", &edge, |&(k, j, tail)| {
        let mut ops = vec![Operation::Swap; k];
        ops.extend((0..j).map(|i| Operation::Push(Felt::new(i as u64))));
        ops.extend(vec![Operation::Drop; tail]);
        if ops.is_empty() {
            return Ok(Info::default());
        }
        check_ops(&ops)
    });
    ctx.exhaustive.store(false, std::sync::atomic::Ordering::Relaxed);
    ctx.set_extra("exhaustive_subspace", json!(format!("all push/non-push patterns of length 1..={maxlen} (3 palettes rotated) and all (k non-push, j push, tail) boundary shapes k<=75, j<=9")));
    // (b) random sequences
    ctx.run("sequences", ctx.n(20_000, 2_000_000), || vec(any::<u16>(), 2..700), |c| check_ops(&arb_ops(c)));
    // (c) assembled programs
    ctx.run("programs", ctx.n(2500, 250_000), || vec(any::<u16>(), 20..400), check_program);
}

pub fn replay(ctx: &Ctx, v: &serde_json::Value) {
    let c = &v["case"];
    if c.get("ops").is_some() || c.get("op").is_some() {
        // operation sequences are stored by display name; re-run the enumerated sub-checks instead
        ctx.record("replay", Err(Viol::new(v["signature"].as_str().unwrap_or("C08:replay"), "re-run `./check C08 --tier quick`: enumerated sub-checks reproduce this deterministically", c.clone())));
        return;
    }
    let case = Case::from_json(&c["case"]);
    let alt = c["variant_src"].as_str().unwrap_or("");
    let sig = v["signature"].as_str().unwrap_or("");
    let out = (|| -> Out {
        let desc = || c.clone();
        let Assembled::Ok(program) = vm::assemble(&case, false) else { return Ok(Info::default()) };
        spec_hash(program.root(), Some(program.cb_table()), &desc)?;
        if !alt.is_empty() {
            let dbg = sig.contains("debug-mode");
            if let Assembled::Ok(p2) = vm::assemble(&Case { src: alt.to_string(), ..case.clone() }, dbg) {
                let same = p2.hash() == program.hash();
                if sig.contains("hash-changed") && !same {
                    return Err(Viol::new(sig, "hash changes", c.clone()));
                }
            } else if sig.contains("variant") {
                return Err(Viol::new(sig, "variant does not assemble", c.clone()));
            }
        }
        Ok(Info::default())
    })();
    ctx.record("replay", out);
}
