//! C13 — the decoded operation stream is exactly the program.

use crate::common::*;
use crate::engine::{fp_str, Ctx, Info, Out, Viol};
use crate::gen::GenCfg;
use crate::tracekit::{self as tk, opc};
use crate::vm::Case;
use processor::ExecutionOptions;
use proptest::collection::vec;
use proptest::prelude::*;
use serde_json::json;
use vm_core::code_blocks::{CodeBlock, OpBatch};
use vm_core::crypto::hash::RpoDigest;
use vm_core::{CodeBlockTable, Felt, StarkField};
use winter_prover::matrix::ColMatrix;
use winter_prover::Trace;

fn cfg() -> GenCfg {
    GenCfg { max_nodes: 60, max_nest: 4, w: [8, 8, 8, 8, 5, 3, 2, 3], ..full_cfg() }
}

/// operations a batch executes per clock cycle (docs/src/design/programs.md, decoder/main.md):
/// the operations of every operation group in order; a NOOP after an immediate-carrying operation
/// that is the last of its group; one NOOP per group added to reach 1, 2, 4 or 8 groups
pub fn batch_stream(b: &OpBatch) -> Vec<u8> {
    let groups = b.groups();
    let counts = b.op_counts();
    let ng = b.num_groups();
    let mut is_imm = [false; 8];
    let mut next_free = 1usize;
    let mut out = vec![];
    for g in 0..ng.min(8) {
        if is_imm[g] {
            continue;
        }
        if next_free <= g {
            next_free = g + 1;
        }
        let mut v = groups[g].as_int();
        let mut last_imm = false;
        for _ in 0..counts[g] {
            let code = (v & 0x7f) as u8;
            v >>= 7;
            out.push(code);
            last_imm = code == opc::PUSH;
            if last_imm && next_free < 8 {
                is_imm[next_free] = true;
                next_free += 1;
            }
        }
        if last_imm {
            out.push(opc::NOOP);
        }
        if counts[g] == 0 {
            // an operation group without operations is a single NOOP
            out.push(opc::NOOP);
        }
    }
    for _ in ng..ng.next_power_of_two() {
        out.push(opc::NOOP);
    }
    out
}

struct Walker<'a> {
    main: &'a ColMatrix<Felt>,
    cbt: &'a CodeBlockTable,
    pos: usize,
    limit: usize,
    blocks: usize,
    loops_entered: usize,
    multi_batch: usize,
    calls: usize,
    max_nest: usize,
}

impl<'a> Walker<'a> {
    fn expect(&mut self, code: u8, what: &str) -> Result<usize, String> {
        if self.pos >= self.limit {
            return Err(format!("trace ends at row {} where {} was expected", self.pos, what));
        }
        let got = tk::opcode_at(self.main, self.pos);
        if got != code {
            return Err(format!("row {}: trace has opcode {:#09b}, the program's MAST prescribes {} ({:#09b})", self.pos, got, what, code));
        }
        self.pos += 1;
        Ok(self.pos - 1)
    }
    fn g(&self, c: usize, r: usize) -> u64 {
        tk::col_u64(self.main, c, r)
    }
    fn end_block(&mut self, id: u64, what: &str) -> Result<(), String> {
        let r = self.expect(opc::END, "END")?;
        if self.g(tk::DEC_ADDR, r) != id {
            return Err(format!("row {r}: END of {what} carries block address {}, the block started with address {id}", self.g(tk::DEC_ADDR, r)));
        }
        Ok(())
    }
    /// decoder/main.md, "END operation": h0..h3 hold the hash of the block that ends, h4 = 1 iff
    /// the block is the body of a loop, h5 = 1 for a loop block (checked for loops that were
    /// entered); the call flags h6 / h7 are zero for blocks that are not calls
    fn end_flags(&self, r: usize, b: &CodeBlock, is_loop_body: bool, loop_entered: Option<bool>) -> Result<(), String> {
        let h: [Felt; 4] = b.hash().into();
        for k in 0..4 {
            if self.main.get(tk::DEC_H + k, r) != h[k] {
                return Err(format!("row {r}: the END row does not carry the hash of the block that ends (element {k})"));
            }
        }
        if self.g(tk::DEC_H + 4, r) != is_loop_body as u64 {
            return Err(format!("row {r}: END flag h4 (body of a loop) is {} for a block that is{} the body of a loop", self.g(tk::DEC_H + 4, r), if is_loop_body { "" } else { " not" }));
        }
        match loop_entered {
            Some(true) if self.g(tk::DEC_H + 5, r) != 1 => return Err(format!("row {r}: END flag h5 (loop block) is not set at the end of a loop that was entered")),
            None if self.g(tk::DEC_H + 5, r) != 0 => return Err(format!("row {r}: END flag h5 (loop block) is set at the end of a block that is not a loop")),
            _ => {}
        }
        if !matches!(b, CodeBlock::Call(_)) && (self.g(tk::DEC_H + 6, r) != 0 || self.g(tk::DEC_H + 7, r) != 0) {
            return Err(format!("row {r}: call flags h6/h7 are ({}, {}) at the END of a block that is not a call", self.g(tk::DEC_H + 6, r), self.g(tk::DEC_H + 7, r)));
        }
        Ok(())
    }
    fn walk(&mut self, b: &CodeBlock, nest: usize) -> Result<(), String> {
        self.walk_in(b, nest, false)
    }
    fn walk_in(&mut self, b: &CodeBlock, nest: usize, is_loop_body: bool) -> Result<(), String> {
        self.blocks += 1;
        self.max_nest = self.max_nest.max(nest);
        let mut loop_entered: Option<bool> = None;
        let res = self.walk_inner(b, nest, &mut loop_entered);
        res?;
        // the END row of this block is the last row consumed
        self.end_flags(self.pos - 1, b, is_loop_body, loop_entered)
    }
    fn walk_inner(&mut self, b: &CodeBlock, nest: usize, loop_entered: &mut Option<bool>) -> Result<(), String> {
        match b {
            CodeBlock::Join(j) => {
                let r = self.expect(opc::JOIN, "JOIN")?;
                let id = self.g(tk::DEC_ADDR, r + 1);
                self.walk(j.first(), nest + 1)?;
                self.walk(j.second(), nest + 1)?;
                self.end_block(id, "join")
            }
            CodeBlock::Split(s) => {
                let r = self.expect(opc::SPLIT, "SPLIT")?;
                let id = self.g(tk::DEC_ADDR, r + 1);
                match self.g(tk::STACK, r) {
                    1 => self.walk(s.on_true(), nest + 1)?,
                    0 => self.walk(s.on_false(), nest + 1)?,
                    v => return Err(format!("row {r}: SPLIT executed on non-binary value {v}")),
                }
                self.end_block(id, "split")
            }
            CodeBlock::Loop(l) => {
                let r = self.expect(opc::LOOP, "LOOP")?;
                let id = self.g(tk::DEC_ADDR, r + 1);
                match self.g(tk::STACK, r) {
                    0 => *loop_entered = Some(false),
                    1 => {
                        *loop_entered = Some(true);
                        self.loops_entered += 1;
                        loop {
                            self.walk_in(l.body(), nest + 1, true)?;
                            match self.g(tk::STACK, self.pos) {
                                1 => {
                                    self.expect(opc::REPEAT, "REPEAT")?;
                                }
                                0 => break,
                                v => return Err(format!("row {}: loop re-check on non-binary value {v}", self.pos)),
                            }
                        }
                    }
                    v => return Err(format!("row {r}: LOOP executed on non-binary value {v}")),
                }
                self.end_block(id, "loop")
            }
            CodeBlock::Call(c) => {
                self.calls += 1;
                let code = if c.is_syscall() { opc::SYSCALL } else { opc::CALL };
                let r = self.expect(code, "CALL/SYSCALL")?;
                let id = self.g(tk::DEC_ADDR, r + 1);
                if c.fn_hash() == vm_core::code_blocks::Dyn::dyn_hash() {
                    self.walk(&CodeBlock::new_dyn(), nest + 1)?;
                } else {
                    let body = self.cbt.get(c.fn_hash()).ok_or_else(|| format!("row {r}: call target missing from the code block table"))?;
                    self.walk(body, nest + 1)?;
                }
                self.end_block(id, "call")
            }
            CodeBlock::Dyn(_) => {
                let r = self.expect(opc::DYN, "DYN")?;
                let id = self.g(tk::DEC_ADDR, r + 1);
                let w = [self.g(tk::STACK + 3, r), self.g(tk::STACK + 2, r), self.g(tk::STACK + 1, r), self.g(tk::STACK, r)].map(Felt::new);
                let d: RpoDigest = w.into();
                let body = self.cbt.get(d).ok_or_else(|| format!("row {r}: dynamic target missing from the code block table"))?;
                self.walk(body, nest + 1)?;
                self.end_block(id, "dyn")
            }
            CodeBlock::Span(s) => {
                let r = self.expect(opc::SPAN, "SPAN")?;
                let id = self.g(tk::DEC_ADDR, r + 1);
                let nb = s.op_batches().len();
                if nb > 1 {
                    self.multi_batch += 1;
                }
                for (bi, batch) in s.op_batches().iter().enumerate() {
                    if bi > 0 {
                        self.expect(opc::RESPAN, "RESPAN")?;
                    }
                    for code in batch_stream(batch) {
                        let rr = self.expect(code, "span operation")?;
                        if self.g(tk::DEC_IN_SPAN, rr) != 1 {
                            return Err(format!("row {rr}: in_span flag is {} on a span operation", self.g(tk::DEC_IN_SPAN, rr)));
                        }
                    }
                }
                let e = self.pos;
                self.end_block(id + 8 * (nb as u64 - 1), "span")?;
                if self.g(tk::DEC_GROUP_COUNT, e) != 0 {
                    return Err(format!("row {e}: group counter is {} at the END of a span", self.g(tk::DEC_GROUP_COUNT, e)));
                }
                Ok(())
            }
            CodeBlock::Proxy(_) => Err("proxy block reached".into()),
        }
    }
}

pub fn check_case(case: &Case, program: &vm_core::Program, trace: &processor::ExecutionTrace) -> Out {
    let cj = || json!({"case": case.to_json()});
    let main = trace.main_segment();
    let n = main.num_rows();
    let cycles = trace.trace_len_summary().main_trace_len();
    let mut w = Walker { main, cbt: program.cb_table(), pos: 0, limit: n - 1, blocks: 0, loops_entered: 0, multi_batch: 0, calls: 0, max_nest: 0 };
    w.walk(program.root(), 0).map_err(|e| Viol::new("C13:stream-mismatch", e, cj()))?;
    let end = w.pos;
    if end != cycles {
        return Err(Viol::new("C13:cycle-count", format!("the MAST walk covers {end} rows, the execution reports {cycles} cycles"), cj()));
    }
    for r in end..n - 1 {
        let op = tk::opcode_at(main, r);
        if op != opc::HALT {
            return Err(Viol::new("C13:no-halt-padding", format!("row {r} after the end of the program holds opcode {:#09b} instead of HALT", op), cj()));
        }
        // HALT copies h0..h3 to the next row and populates all other decoder registers with 0
        if r > end {
            for c in [tk::DEC_ADDR, tk::DEC_H + 4, tk::DEC_H + 5, tk::DEC_H + 6, tk::DEC_H + 7, tk::DEC_IN_SPAN, tk::DEC_GROUP_COUNT, tk::DEC_OP_INDEX] {
                if tk::col_u64(main, c, r) != 0 {
                    return Err(Viol::new("C13:halt-row-registers", format!("HALT padding row {r}: decoder column {} holds {} instead of 0", c - tk::DEC, tk::col_u64(main, c, r)), cj()));
                }
            }
        }
    }
    // control rows never carry the in_span flag
    for r in 0..end {
        let op = tk::opcode_at(main, r);
        let ctrl = matches!(op, opc::JOIN | opc::SPLIT | opc::LOOP | opc::SPAN | opc::CALL | opc::SYSCALL | opc::DYN | opc::END | opc::REPEAT);
        if ctrl && tk::col_u64(main, tk::DEC_IN_SPAN, r) != 0 {
            return Err(Viol::new("C13:in-span", format!("row {r}: in_span set on a control-flow operation"), cj()));
        }
    }
    // second observation point: the operation VmStateIterator reports for clock t is the one the
    // (already validated) decoder columns hold at row t - 1
    let iter_ops = crate::vm::catch(|| {
        let mut v: Vec<Option<u8>> = vec![];
        for st in processor::execute_iter(program, case.stack_inputs(), case.host()) {
            match st {
                Ok(s) => v.push(s.op.map(|o| o.op_code())),
                Err(_) => break,
            }
            if v.len() > end + 2 {
                break;
            }
        }
        v
    })
    .map_err(|p| Viol::new(format!("C13:iter-panic:{}", crate::diff::panic_site(&p)), format!("stepping through the program panicked: {p}"), cj()))?;
    if iter_ops.len() != end + 1 {
        return Err(Viol::new("C13:iter-stream-length", format!("the step iterator yields {} states for {} executed cycles", iter_ops.len(), end), cj()));
    }
    for t in 1..=end {
        let want = tk::opcode_at(main, t - 1);
        if iter_ops[t] != Some(want) {
            return Err(Viol::new(
                "C13:iter-stream-mismatch",
                format!("clock {t}: the step iterator reports opcode {:?}, the decoder row holds {:#09b}", iter_ops[t].map(|o| format!("{:#09b}", o)), want),
                cj(),
            ));
        }
    }
    // the final decoder row carries the program hash
    let ph: [Felt; 4] = program.hash().into();
    for k in 0..4 {
        if main.get(tk::DEC_H + k, n - 2) != ph[k] {
            return Err(Viol::new("C13:final-hash", "the last decoder row does not carry the program hash", cj()));
        }
    }
    let nontrivial = w.blocks >= 2 && (w.multi_batch > 0 || w.loops_entered > 0 || w.calls > 0);
    Ok(Info {
        nontrivial: if nontrivial { Some(fp_str(&format!("{}|{}|{}|{}|{}", w.blocks, w.multi_batch, w.loops_entered, w.calls, end))) } else { None },
        classes: vec![
            format!("blocks~{}", w.blocks.min(40) / 5 * 5),
            format!("nest={}", w.max_nest.min(9)),
            if w.multi_batch > 0 { "multi-batch-span".into() } else { "single-batch".into() },
            if w.loops_entered > 0 { "loop-entered".into() } else { "no-loop".into() },
            if w.calls > 0 { "calls".into() } else { "no-calls".into() },
        ],
        sample: Some(json!({"src": case.src, "kernel": case.kernel, "cycles": end, "blocks": w.blocks})),
        ..Info::default()
    })
}

pub fn check(choices: &Vec<u16>) -> Out {
    let ex = match exec_generated("C13", choices, cfg(), ExecutionOptions::default())? {
        ExecOutcome::Done(e) => e,
        ExecOutcome::Skipped(why) => return Ok(Info { classes: vec![format!("skipped:{}", why.split(':').next().unwrap())], ..Info::default() }),
    };
    check_case(&ex.g.case, &ex.program, &ex.trace)
}

/// spans of every length 1..=200 with every immediate placement period
pub fn check_spans(ctx: &Ctx) {
    let mut items = vec![];
    for len in 1..=200usize {
        for period in [0usize, 1, 2, 3, 5, 8, 9, 10] {
            items.push((len, period));
        }
    }
    ctx.run_list("span-shapes", &items, |&(len, period)| {
        let mut src = String::from("begin ");
        let mut depth = 0i64;
        for i in 0..len {
            if period > 0 && i % period == 0 {
                src.push_str(&format!("push.{} ", i + 2));
                depth += 1;
            } else if depth > 0 && i % 3 == 1 {
                src.push_str("drop ");
                depth -= 1;
            } else {
                src.push_str("swap ");
            }
        }
        src.push_str("end");
        let case = Case { src, ..Case::default() };
        let crate::vm::Assembled::Ok(p) = crate::vm::assemble(&case, false) else { return Err(Viol::new("C13:span-asm", "cannot assemble", json!({"case": case.to_json()}))) };
        let crate::vm::Ran::Ok(t, _) = crate::vm::run(&p, &case, ExecutionOptions::default()) else { return Err(Viol::new("C13:span-run", "cannot run", json!({"case": case.to_json()}))) };
        check_case(&case, &p, &t)
    });
}

pub fn run(ctx: &Ctx) {
    ctx.set_rule("programs from the full generator biased to MAST shape variety plus spans of every length 1..200 with eight immediate placements; an independent walker executes the program structure (root and code block table through public accessors) with the branch/loop decisions read from the stack column of the trace and prescribes the operation per clock: block start, span operations with NOOPs only after a group-final immediate-carrying operation and one per padding group, RESPAN between batches, END, REPEAT, trailing HALT; compared for equality with the opcode columns; END rows carry the address of their block, the group counter is 0 at span ends, in_span only on span operations, last decoder row = program hash; non-trivial = >= 2 blocks and (multi-batch span or entered loop or call); distinct by (block count, shape counters, cycles)");
    check_spans(ctx);
    ctx.run("programs", ctx.n(6000, 150_000), || vec(any::<u16>(), 20..600), check);
}

pub fn replay(ctx: &Ctx, v: &serde_json::Value) {
    let case = Case::from_json(&v["case"]["case"]);
    let out = (|| -> Out {
        let crate::vm::Assembled::Ok(p) = crate::vm::assemble(&case, false) else { return Ok(Info::default()) };
        let crate::vm::Ran::Ok(t, _) = crate::vm::run(&p, &case, ExecutionOptions::default()) else { return Ok(Info::default()) };
        check_case(&case, &p, &t)
    })();
    ctx.record("replay", out);
}
