//! C12 — all lookups between trace components balance.
//! Oracle A: terminal (and initial) values of every auxiliary column for generated challenges.
//! Oracle B: challenge-free recount of requests and responses from the raw main-trace columns.

use crate::common::*;
use crate::engine::{fp_str, Ctx, Info, Out, Viol};
use crate::tracekit::{self as tk, opc};
use crate::vm::Case;
use processor::ExecutionOptions;
use proptest::collection::vec;
use proptest::prelude::*;
use serde_json::json;
use std::collections::BTreeSet;
use vm_core::{Felt, FieldElement, StarkField};
use winter_prover::matrix::ColMatrix;
use winter_prover::Trace;

pub const COLS: [&str; 7] = ["decoder-p1-block-stack", "decoder-p2-block-hash", "decoder-p3-op-group", "stack-p1-overflow", "range-b", "chiplets-vt", "chiplets-bus"];

/// features of an executed program that decide which lookups are exercised (from the trace itself)
pub fn features(main: &ColMatrix<Felt>) -> BTreeSet<&'static str> {
    let n = main.num_rows() - 1;
    let mut f = BTreeSet::new();
    let mut respans_in_span = 0;
    for r in 0..n {
        match tk::opcode_at(main, r) {
            opc::CALL => {
                f.insert("call");
            }
            opc::SYSCALL => {
                f.insert("syscall");
            }
            opc::DYN => {
                f.insert("dyn");
            }
            opc::PIPE => {
                f.insert("pipe");
            }
            opc::MSTREAM => {
                f.insert("mstream");
            }
            opc::SPAN => respans_in_span = 0,
            opc::RESPAN => {
                respans_in_span += 1;
                f.insert("respan");
                if respans_in_span >= 2 {
                    f.insert("respan>=2");
                }
            }
            opc::LOOP | opc::REPEAT => {
                f.insert("loop");
            }
            opc::SPLIT => {
                f.insert("split");
            }
            opc::JOIN => {
                f.insert("join");
            }
            opc::U32AND | opc::U32XOR => {
                f.insert("bitwise");
            }
            opc::MLOAD | opc::MLOADW | opc::MSTORE | opc::MSTOREW => {
                f.insert("memory");
            }
            opc::HPERM => {
                f.insert("hperm");
            }
            opc::MPVERIFY => {
                f.insert("mpverify");
            }
            opc::MRUPDATE => {
                f.insert("mrupdate");
            }
            opc::RCOMBBASE => {
                f.insert("rcombbase");
            }
            _ => {}
        }
    }
    f
}

/// Oracle A. `aux` was built with `chal`. Returns the list of columns that miss their value.
pub fn terminal_values(main: &ColMatrix<Felt>, aux: &ColMatrix<Felt>, chal: &[Felt], program_hash: [Felt; 4], kernel_roots: &[[Felt; 4]]) -> Vec<(usize, String)> {
    let n = main.num_rows();
    let last = n - 2; // last row below the random row
    let mut bad = vec![];
    let one = Felt::ONE;
    // first-row values
    for c in [tk::AUX_P1, tk::AUX_P3, tk::AUX_SIBLING, tk::AUX_CHIP_BUS] {
        if aux.get(c, 0) != one {
            bad.push((c, format!("{} starts at {} instead of 1", COLS[c], aux.get(c, 0).as_int())));
        }
    }
    let init_p2 = chal[0] + chal[2] * program_hash[0] + chal[3] * program_hash[1] + chal[4] * program_hash[2] + chal[5] * program_hash[3];
    if aux.get(tk::AUX_P2, 0) != init_p2 {
        bad.push((tk::AUX_P2, "decoder-p2-block-hash does not start with the row (0, program hash, 0, 0)".into()));
    }
    for c in [tk::AUX_P1, tk::AUX_P2, tk::AUX_P3] {
        if aux.get(c, last) != one {
            bad.push((c, format!("{} ends at {} instead of 1", COLS[c], aux.get(c, last).as_int())));
        }
    }
    // stack overflow table (docs/src/design/stack/main.md): empty at the start when there are at
    // most 16 inputs, empty at the end when the final depth is 16
    if tk::col_u64(main, tk::B0, 0) == 16 && aux.get(tk::AUX_STACK_P1, 0) != one {
        bad.push((tk::AUX_STACK_P1, "stack-p1-overflow does not start at 1 although the initial depth is 16".into()));
    }
    if tk::col_u64(main, tk::B0, last) == 16 && aux.get(tk::AUX_STACK_P1, last) != one {
        bad.push((tk::AUX_STACK_P1, "stack-p1-overflow does not end at 1 although the final depth is 16 (rows added to and removed from the overflow table differ)".into()));
    }
    // range checker (docs/src/design/range.md, "Communication bus"): b_range is 1 in the first row
    // and 1 in the last row
    if aux.get(tk::AUX_RANGE_B, 0) != one {
        bad.push((tk::AUX_RANGE_B, "range-b does not start at 1".into()));
    }
    if aux.get(tk::AUX_RANGE_B, last) != one {
        bad.push((tk::AUX_RANGE_B, "range-b does not end at 1 (range-check requests and the range table's multiplicities differ)".into()));
    }
    // chiplets (docs/src/design/chiplets/main.md): the bus ends at 1; the virtual table ends at the
    // product of the rows of the kernel procedure table, one per kernel procedure (address = its
    // position in the kernel ROM, starting at 0)
    if aux.get(tk::AUX_CHIP_BUS, last) != one {
        bad.push((tk::AUX_CHIP_BUS, "chiplets-bus does not end at 1 (requests and responses differ)".into()));
    }
    let mut want = one;
    for (i, r) in kernel_roots.iter().enumerate() {
        want *= chal[0] + chal[1] * Felt::new(i as u64) + chal[2] * r[0] + chal[3] * r[1] + chal[4] * r[2] + chal[5] * r[3];
    }
    if aux.get(tk::AUX_SIBLING, last) != want {
        bad.push((tk::AUX_SIBLING, "chiplets-vt does not end at the product of the kernel procedure rows (1 without a kernel)".into()));
    }
    bad
}

pub fn check_a(choices: &Vec<u16>) -> Out {
    let ex = match exec_generated("C12", choices, gen_cfg(), ExecutionOptions::default())? {
        ExecOutcome::Done(e) => e,
        ExecOutcome::Skipped(why) => return Ok(Info { classes: vec![format!("skipped:{}", why.split(':').next().unwrap())], ..Info::default() }),
    };
    let Executed { g, program, mut trace } = ex;
    check_case_a(&g.case, &program, &mut trace, choices.len() as u64, Some(&g))
}

pub fn gen_cfg() -> crate::gen::GenCfg {
    crate::gen::GenCfg { max_nodes: 70, w: [6, 10, 8, 4, 10, 4, 5, 2], ..full_cfg() }
}

pub fn check_case_a(case: &Case, program: &vm_core::Program, trace: &mut processor::ExecutionTrace, salt: u64, g: Option<&crate::gen::Generated>) -> Out {
    let cj = || json!({"case": case.to_json()});
    let chal = challenges(&[salt as u16, (salt >> 16) as u16, 77], salt);
    let aux = crate::vm::catch(|| trace.build_aux_segment::<Felt>(&[], &chal).expect("aux"))
        .map_err(|p| Viol::new(format!("C12:aux-build-panic:{}", crate::diff::panic_site(&p)), p, cj()))?;
    let main = trace.main_segment();
    let ph: [Felt; 4] = program.hash().into();
    let kroots: Vec<[Felt; 4]> = program.kernel().proc_hashes().iter().map(|d| (*d).into()).collect();
    let bad = terminal_values(main, &aux, &chal, ph, &kroots);
    let feats = features(main);
    if let Some((c, msg)) = bad.first() {
        let f: Vec<&str> = feats.iter().copied().filter(|x| matches!(*x, "call" | "syscall" | "dyn" | "pipe" | "respan>=2" | "rcombbase")).collect();
        let all: Vec<String> = bad.iter().map(|b| COLS[b.0].to_string()).collect();
        return Err(Viol::new(format!("C12:{}:{}", COLS[*c], f.join("+")), format!("{msg}; columns off: {:?}; trace features {:?}", all, feats), cj()));
    }
    let nontrivial = feats.iter().any(|f| matches!(*f, "bitwise" | "memory" | "mstream" | "pipe" | "respan" | "call" | "syscall" | "dyn"));
    let mut classes: Vec<String> = feats.iter().map(|s| s.to_string()).collect();
    if !kroots.is_empty() {
        classes.push("kernel".into());
    }
    let fpv = fp_str(&classes.join(","));
    let _ = g;
    Ok(Info {
        nontrivial: if nontrivial { Some(fpv ^ fp_str(&case.src) % 64) } else { None },
        classes,
        sample: Some(json!({"src": case.src, "kernel": case.kernel, "stack_top_first": case.stack, "columns_checked": COLS})),
        ..Info::default()
    })
}

pub fn run(ctx: &Ctx) {
    ctx.set_rule("programs from the full generator biased to chiplet traffic; oracle A: with 16 generated challenges every auxiliary column starts and ends at its specified value (p1, p3, vt, bus: 1; p2: program-hash row .. 1; kernel procedure table: product of the kernel's procedures); non-trivial = traffic to a non-hasher chiplet, a RESPAN or a call; distinct by (trace feature set, program bucket)");
    ctx.run("terminal", ctx.n(3000, 150_000), || vec(any::<u16>(), 20..600), check_a);
}

pub fn replay(ctx: &Ctx, v: &serde_json::Value) {
    let case = Case::from_json(&v["case"]["case"]);
    let out = (|| -> Out {
        let program = match crate::vm::assemble(&case, false) {
            crate::vm::Assembled::Ok(p) => p,
            _ => return Ok(Info::default()),
        };
        let mut trace = match crate::vm::run(&program, &case, ExecutionOptions::default()) {
            crate::vm::Ran::Ok(t, _) => t,
            _ => return Ok(Info::default()),
        };
        check_case_a(&case, &program, &mut trace, 5, None)
    })();
    ctx.record("replay", out);
}
