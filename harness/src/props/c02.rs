//! C02 — a proof binds to its statement; altered statements or proofs are rejected.

use crate::common::*;
use crate::engine::{fp_str, Ctx, Info, Out, Viol};
use crate::gen::{generate, Ch, GenCfg};
use crate::props::c01::{options, round_trip, Proved, SETS};
use crate::vm::{self, Case};
use air::{ExecutionProof, HashFunction, ProvingOptions};
use processor::ExecutionOptions;
use proptest::collection::vec;
use proptest::prelude::*;
use serde_json::json;
use vm_core::{Felt, Kernel, ProgramInfo, StackInputs, StackOutputs, StarkField};

fn cfg() -> GenCfg {
    GenCfg { max_nodes: 35, max_inputs: 24, ..full_cfg() }
}

fn norm16(v: &[u64]) -> Vec<u64> {
    let mut v = v.to_vec();
    while v.len() < 16 {
        v.push(0);
    }
    v
}

struct Tuple {
    case: Case,
    set: usize,
    info: ProgramInfo,
    inputs: Vec<u64>, // top first
    outputs: StackOutputs,
    proof: ExecutionProof,
    bytes: Vec<u8>,
}

/// signature for a panic while decoding / verifying *malformed proof bytes*: the STARK library
/// does not validate what it decodes (known finding, one entry per dependency crate); a panic
/// anywhere else keeps its exact site
fn malformed_panic_sig(p: &str) -> String {
    let site = crate::diff::panic_site(p);
    if let Some(krate) = site.split('/').next() {
        if krate.starts_with("winter-") {
            let name: Vec<&str> = krate.rsplitn(2, '-').collect();
            return format!("C02:malformed-proof-panic:{}", name.last().unwrap());
        }
        // a panic inside the standard library attributed to a frame of the dependency
        if krate.starts_with("[winter-") {
            return format!("C02:malformed-proof-panic:{}", krate.trim_matches(|c| c == '[' || c == ']'));
        }
    }
    format!("C02:verify-panic:{site}")
}

fn verify_catch(info: ProgramInfo, inputs: StackInputs, outputs: StackOutputs, proof: ExecutionProof) -> Result<Result<u32, String>, String> {
    vm::catch(|| verifier::verify(info, inputs, outputs, proof).map_err(|e| format!("{e}")))
}

fn inputs_of(top_first: &[u64]) -> StackInputs {
    StackInputs::try_from_values(top_first.iter().rev().copied()).unwrap()
}

/// one alteration of the tuple; returns (kind, region, outcome) or a violation
fn alter(t: &Tuple, ch: &mut Ch, other: Option<&Tuple>) -> Result<(String, bool), Viol> {
    let kind = ch.pick(14);
    let cj = |what: String| json!({"case": t.case.to_json(), "option_set": SETS[t.set], "alteration": what});
    let accepted = |what: String, sig: &str| Viol::new(format!("C02:accepted:{sig}"), format!("verification accepts an altered statement/proof: {what}"), cj(what.clone()));
    let panicked = |what: String, p: String| Viol::new(format!("C02:verify-panic:{}", crate::diff::panic_site(&p)), format!("{what}: {p}"), cj(what.clone()));
    let malformed = |what: String, p: String| Viol::new(malformed_panic_sig(&p), format!("{what}: {p}"), cj(what.clone()));
    let base_in = inputs_of(&t.inputs);
    let judge = |what: String, sig: &str, r: Result<Result<u32, String>, String>| -> Result<(String, bool), Viol> {
        match r {
            Err(p) => Err(panicked(what, p)),
            Ok(Ok(_)) => Err(accepted(what, sig)),
            Ok(Err(_)) => Ok((sig.to_string(), true)),
        }
    };
    match kind {
        0 | 1 => {
            // change one input element (any position, also deeper than 16)
            let mut v = norm16(&t.inputs);
            let i = ch.pick(v.len());
            let old = v[i];
            v[i] = match ch.pick(3) {
                0 => crate::fe::add(old, 1),
                1 => crate::fe::sub(old, 1),
                _ => ch.felt(),
            };
            if norm16(&v) == norm16(&t.inputs) {
                return Ok(("trivial".into(), false));
            }
            let r = verify_catch(t.info.clone(), inputs_of(&v), t.outputs.clone(), t.proof.clone());
            judge(format!("input element {i}: {old} -> {}", v[i]), if i < 16 { "input-top16" } else { "input-overflow" }, r)
        }
        2 => {
            // append / drop an input
            let mut v = t.inputs.clone();
            let what;
            if ch.chance(1, 2) || v.is_empty() {
                let x = ch.felt();
                v.push(x);
                what = format!("appended input {x} at the bottom");
            } else {
                let x = v.pop().unwrap();
                what = format!("dropped bottom input {x}");
            }
            if norm16(&v) == norm16(&t.inputs) {
                return Ok(("trivial".into(), false));
            }
            let r = verify_catch(t.info.clone(), inputs_of(&v), t.outputs.clone(), t.proof.clone());
            judge(what, "input-count", r)
        }
        3 | 4 => {
            // change one output element (top 16 or overflow)
            let mut st = t.outputs.stack().to_vec();
            let i = ch.pick(st.len());
            let old = st[i];
            st[i] = match ch.pick(3) {
                0 => crate::fe::add(old, 1),
                1 => 0,
                _ => ch.felt(),
            };
            if st[i] == old {
                return Ok(("trivial".into(), false));
            }
            let Ok(o) = StackOutputs::new(st.clone(), t.outputs.overflow_addrs().to_vec()) else { return Ok(("constructor-rejects".into(), true)) };
            let r = verify_catch(t.info.clone(), base_in, o, t.proof.clone());
            judge(format!("output element {i}: {old} -> {}", st[i]), if i < 16 { "output-top16" } else { "output-overflow" }, r)
        }
        5 => {
            // overflow addresses: change one / drop the overflow part / add an overflow element
            let st = t.outputs.stack().to_vec();
            let mut addrs = t.outputs.overflow_addrs().to_vec();
            if addrs.is_empty() {
                // add an overflow item with a made-up address pair
                let mut st2 = st.clone();
                st2.push(ch.felt());
                let Ok(o) = StackOutputs::new(st2, vec![0, 1 + ch.pick(50) as u64]) else { return Ok(("constructor-rejects".into(), true)) };
                let r = verify_catch(t.info.clone(), base_in, o, t.proof.clone());
                return judge("added an overflow output element".into(), "output-overflow-added", r);
            }
            if ch.chance(1, 3) {
                let st2: Vec<u64> = st[..16].to_vec();
                let Ok(o) = StackOutputs::new(st2, vec![]) else { return Ok(("constructor-rejects".into(), true)) };
                let r = verify_catch(t.info.clone(), base_in, o, t.proof.clone());
                return judge("dropped the overflow part of the outputs".into(), "output-overflow-dropped", r);
            }
            let i = ch.pick(addrs.len());
            let old = addrs[i];
            addrs[i] = if ch.chance(1, 2) { old + 1 } else { ch.next() as u64 };
            if addrs[i] == old {
                return Ok(("trivial".into(), false));
            }
            let Ok(o) = StackOutputs::new(st, addrs.clone()) else { return Ok(("constructor-rejects".into(), true)) };
            let r = verify_catch(t.info.clone(), base_in, o, t.proof.clone());
            judge(format!("overflow address {i}: {old} -> {}", addrs[i]), "output-overflow-addr", r)
        }
        6 => {
            // program hash limb
            let mut w: [Felt; 4] = (*t.info.program_hash()).into();
            let i = ch.pick(4);
            w[i] = Felt::new(crate::fe::add(w[i].as_int(), 1 + ch.pick(3) as u64));
            let info = ProgramInfo::new(w.into(), t.info.kernel().clone());
            let r = verify_catch(info, base_in, t.outputs.clone(), t.proof.clone());
            judge(format!("program hash limb {i}"), "program-hash", r)
        }
        7 => {
            // kernel procedure set: add / remove / alter a digest
            let mut ds: Vec<vm_core::crypto::hash::RpoDigest> = t.info.kernel().proc_hashes().to_vec();
            let what;
            match ch.pick(3) {
                0 => {
                    ds.push([Felt::new(ch.felt()), Felt::new(1), Felt::new(2), Felt::new(3)].into());
                    what = "added a kernel procedure";
                }
                1 if !ds.is_empty() => {
                    ds.remove(ch.pick(ds.len()));
                    what = "removed a kernel procedure";
                }
                _ if !ds.is_empty() => {
                    let i = ch.pick(ds.len());
                    let mut w: [Felt; 4] = ds[i].into();
                    w[ch.pick(4)] += Felt::new(1);
                    ds[i] = w.into();
                    what = "altered a kernel procedure digest";
                }
                _ => {
                    ds.push([Felt::new(9), Felt::new(1), Felt::new(2), Felt::new(3)].into());
                    what = "added a kernel procedure";
                }
            }
            let Ok(k) = Kernel::new(&ds) else { return Ok(("constructor-rejects".into(), true)) };
            if k.proc_hashes() == t.info.kernel().proc_hashes() {
                return Ok(("trivial".into(), false));
            }
            let info = ProgramInfo::new(*t.info.program_hash(), k);
            let r = verify_catch(info, base_in, t.outputs.clone(), t.proof.clone());
            judge(what.into(), "kernel", r)
        }
        8 => {
            // statement of another tuple with this proof
            let Some(o) = other else { return Ok(("trivial".into(), false)) };
            if o.info.program_hash() == t.info.program_hash() && norm16(&o.inputs) == norm16(&t.inputs) && o.outputs == t.outputs {
                return Ok(("trivial".into(), false));
            }
            let r = verify_catch(o.info.clone(), inputs_of(&o.inputs), o.outputs.clone(), t.proof.clone());
            judge("statement of another program".into(), "other-statement", r)
        }
        9 => {
            // relabel the hash function
            let tag = [0u8, 1, 2, 3, 7, 255][ch.pick(6)];
            let mut b = t.bytes.clone();
            if b[0] == tag {
                return Ok(("trivial".into(), false));
            }
            b[0] = tag;
            let what = format!("hash tag byte -> {tag}");
            match vm::catch(|| ExecutionProof::from_bytes(&b)) {
                Err(p) => Err(malformed(what, p)),
                Ok(Err(_)) => Ok(("hash-tag".into(), true)),
                Ok(Ok(p)) => match verify_catch(t.info.clone(), base_in, t.outputs.clone(), p) {
                    Err(pn) => Err(malformed(what, pn)),
                    r => judge(what, "hash-tag", r),
                },
            }
        }
        10 => {
            // same STARK proof re-wrapped under another hash function
            let hf = [HashFunction::Blake3_192, HashFunction::Blake3_256, HashFunction::Rpo256][ch.pick(3)];
            if hf == t.proof.hash_fn() {
                return Ok(("trivial".into(), false));
            }
            let p = ExecutionProof::new(t.proof.stark_proof().clone(), hf);
            judge(format!("re-wrapped under {:?}", hf), "rewrap", verify_catch(t.info.clone(), base_in, t.outputs.clone(), p))
        }
        11 => {
            // truncation / extension
            let mut b = t.bytes.clone();
            let what;
            if ch.chance(2, 3) {
                let cut = match ch.pick(3) {
                    0 => 1 + ch.pick(16),
                    1 => b.len() - 1 - ch.pick(64.min(b.len() - 2)),
                    _ => 1 + ch.pick(b.len() - 1),
                };
                b.truncate(b.len() - cut.min(b.len() - 1));
                what = format!("truncated to {} bytes", b.len());
            } else {
                let n = 1 + ch.pick(9);
                for _ in 0..n {
                    b.push(ch.next() as u8);
                }
                what = format!("{n} bytes appended");
            }
            match vm::catch(|| ExecutionProof::from_bytes(&b)) {
                Err(p) => Err(malformed(what, p)),
                Ok(Err(_)) => Ok(("length".into(), true)),
                Ok(Ok(p)) => {
                    if p == t.proof {
                        // trailing bytes ignored by the decoder: the decoded proof is the original one
                        return Ok(("trivial".into(), false));
                    }
                    match verify_catch(t.info.clone(), base_in, t.outputs.clone(), p) {
                        Err(pn) => Err(malformed(what, pn)),
                        r => judge(what, "length", r),
                    }
                }
            }
        }
        _ => {
            // bit flip / byte set, stratified by region
            let len = t.bytes.len();
            let (pos, region) = match ch.pick(10) {
                0..=3 => (ch.pick(80.min(len)), "header"),
                4 => (len - 1 - ch.pick(40.min(len - 1)), "tail"),
                _ => (ch.pick(len), "body"),
            };
            let mut b = t.bytes.clone();
            let old = b[pos];
            b[pos] = match ch.pick(4) {
                0 => old ^ (1 << ch.pick(8)),
                1 => 0,
                2 => 0xff,
                _ => ch.next() as u8,
            };
            if b[pos] == old {
                return Ok(("trivial".into(), false));
            }
            let what = format!("byte {pos} of {len} ({region}): {old:#04x} -> {:#04x}", b[pos]);
            match vm::catch(|| ExecutionProof::from_bytes(&b)) {
                Err(p) => Err(malformed(what, p)),
                Ok(Err(_)) => Ok((format!("byte-{region}-undecodable"), true)),
                Ok(Ok(p)) => {
                    if p == t.proof {
                        return Ok(("trivial".into(), false));
                    }
                    match verify_catch(t.info.clone(), base_in, t.outputs.clone(), p) {
                        Err(pn) => Err(malformed(what, pn)),
                        Ok(Ok(_)) => {
                            let sig = if pos == len - 9 { "proof-byte:fri-num-partitions".to_string() } else { format!("proof-byte:{region}") };
                            Err(accepted(what, &sig))
                        }
                        Ok(Err(_)) => Ok((format!("byte-{region}"), true)),
                    }
                }
            }
        }
    }
}

fn make_tuple(choices: &[u16], set: usize) -> Result<Option<Tuple>, Viol> {
    let g = generate(choices, cfg());
    match round_trip(&g.case, set, 64)? {
        Err(_) => Ok(None),
        Ok(Proved { program, outputs, proof }) => {
            let bytes = proof.to_bytes();
            Ok(Some(Tuple { inputs: g.case.stack.clone(), case: g.case, set, info: program_info(&program), outputs, proof, bytes }))
        }
    }
}

pub fn check(choices: &Vec<u16>, set: usize, n_alt: usize) -> Out {
    let Some(t) = make_tuple(choices, set)? else { return Ok(Info { classes: vec!["skipped".into()], ..Info::default() }) };
    // a second tuple for statement swapping
    let rev: Vec<u16> = choices.iter().rev().copied().collect();
    let other = make_tuple(&rev, 0)?;
    let seed: Vec<u16> = choices.iter().map(|c| c.wrapping_mul(31).wrapping_add(7)).cycle().take(n_alt * 12).collect();
    let mut ch = Ch::new(&seed);
    let mut soft = vec![];
    let mut classes = vec![];
    let mut fps = vec![];
    let mut evals = 0u64;
    for _ in 0..n_alt {
        match alter(&t, &mut ch, other.as_ref()) {
            Ok((kind, nontrivial)) => {
                evals += 1;
                if nontrivial {
                    fps.push(fp_str(&format!("{}|{}", kind, SETS[set])) ^ (evals % 16));
                }
                classes.push(kind);
            }
            Err(v) => {
                // known findings rooted in the STARK library are counted and the search goes on
                if v.sig.starts_with("C02:malformed-proof-panic:") || v.sig == "C02:accepted:proof-byte:fri-num-partitions" {
                    if !soft.iter().any(|x: &Viol| x.sig == v.sig) {
                        soft.push(v);
                    }
                } else {
                    return Err(v);
                }
            }
        }
    }
    classes.sort();
    classes.dedup();
    classes.push(SETS[set].to_string());
    Ok(Info {
        nontrivial: fps.first().copied(),
        extra_nontrivial: fps,
        classes,
        sample: Some(json!({"src": t.case.src, "option_set": SETS[set], "proof_bytes": t.bytes.len(), "alterations": n_alt})),
        evals,
        soft,
    })
}

/// proofs produced honestly with parameters outside the accepted sets must be rejected
pub fn check_weak_options(ctx: &Ctx) {
    use air::FieldExtension::*;
    let weak: Vec<(&str, usize, usize, u32, air::FieldExtension, usize, usize, HashFunction)> = vec![
        ("fewer-queries", 20, 8, 16, Quadratic, 8, 255, HashFunction::Blake3_192),
        ("no-grinding", 27, 8, 0, Quadratic, 8, 255, HashFunction::Blake3_192),
        ("blowup-4", 27, 4, 16, Quadratic, 8, 255, HashFunction::Blake3_192),
        ("no-extension", 27, 8, 16, None, 8, 255, HashFunction::Blake3_192),
        ("96-bit-under-blake3-256", 27, 8, 16, Quadratic, 8, 255, HashFunction::Blake3_256),
        ("128-bit-under-blake3-192", 27, 16, 21, Cubic, 8, 255, HashFunction::Blake3_192),
        ("regular-96-under-rpo", 27, 8, 16, Quadratic, 8, 255, HashFunction::Rpo256),
        ("recursive-96-under-blake3", 27, 8, 16, Quadratic, 4, 7, HashFunction::Blake3_192),
        ("rpo-fewer-queries", 20, 8, 16, Quadratic, 4, 7, HashFunction::Rpo256),
        ("folding-16", 27, 8, 16, Quadratic, 16, 255, HashFunction::Blake3_192),
    ];
    ctx.run_list("weak-options", &weak, |w| {
        let case = Case { src: "begin push.1 push.2 add push.3 mul u32split drop end".into(), stack: vec![5, 6], ..Case::default() };
        let cj = json!({"case": case.to_json(), "weak_options": w.0});
        let crate::vm::Assembled::Ok(program) = vm::assemble(&case, false) else { return Err(Viol::new("C02:weak-setup", "asm", cj)) };
        let opts = ProvingOptions::new(w.1, w.2, w.3, w.4, w.5, w.6, w.7);
        let r = vm::catch(|| prover::prove(&program, case.stack_inputs(), case.host(), opts));
        let (outputs, proof) = match r {
            Ok(Ok(x)) => x,
            // a prover that refuses such parameters is fine as well
            _ => return Ok(Info { classes: vec!["weak-options-prover-refuses".into()], ..Info::default() }),
        };
        match verify_catch(program_info(&program), case.stack_inputs(), outputs, proof) {
            Err(p) => Err(Viol::new(format!("C02:verify-panic:{}", crate::diff::panic_site(&p)), p, cj)),
            Ok(Ok(l)) => Err(Viol::new(format!("C02:accepted:weak-options:{}", w.0), format!("proof made with parameters outside the accepted sets verifies (level {l})"), cj)),
            Ok(Err(_)) => Ok(Info { nontrivial: Some(fp_str(w.0)), classes: vec!["weak-options-rejected".into()], sample: Some(cj), ..Info::default() }),
        }
    });
}

/// every single-byte change from a fixed set, over the whole header and tail of one proof per hash
pub fn check_sweep(ctx: &Ctx) {
    let items: Vec<usize> = vec![0, 2];
    ctx.run_list("header-tail-sweep", &items, |&set| {
        let case = Case { src: "proc.f push.3 drop end begin push.1 push.2 add call.f push.7.8.9 mem_storew.2 dropw end".into(), stack: vec![5, 6, 7], ..Case::default() };
        let Ok(Proved { program, outputs, proof }) = round_trip(&case, set, 64)? else { return Err(Viol::new("C02:sweep-setup", "cannot prove the fixed program", json!({}))) };
        let bytes = proof.to_bytes();
        let info = program_info(&program);
        let len = bytes.len();
        let mut soft: Vec<Viol> = vec![];
        let mut evals = 0u64;
        let mut fps = vec![];
        let positions: Vec<usize> = (0..140.min(len)).chain(len.saturating_sub(70)..len).collect();
        for pos in positions {
            let old = bytes[pos];
            for val in [0u8, 1, 0xff, old ^ 1, old ^ 0x80, old.wrapping_add(1), old.wrapping_sub(1), old ^ 0x10] {
                if val == old {
                    continue;
                }
                evals += 1;
                let mut b = bytes.clone();
                b[pos] = val;
                let what = format!("byte {pos} of {len}: {old:#04x} -> {val:#04x}");
                let cj = json!({"case": case.to_json(), "option_set": SETS[set], "alteration": what});
                let r = vm::catch(|| ExecutionProof::from_bytes(&b));
                let v = match r {
                    Err(p) => Some(Viol::new(malformed_panic_sig(&p), format!("{what}: {p}"), cj)),
                    Ok(Err(_)) => None,
                    Ok(Ok(p)) => {
                        if p == proof {
                            continue;
                        }
                        match verify_catch(info.clone(), case.stack_inputs(), outputs.clone(), p) {
                            Err(pn) => Some(Viol::new(malformed_panic_sig(&pn), format!("{what}: {pn}"), cj)),
                            Ok(Ok(_)) => {
                                let sig = if pos == len - 9 { "C02:accepted:proof-byte:fri-num-partitions".to_string() } else { format!("C02:accepted:proof-byte:sweep-{}", if pos < 140 { "header" } else { "tail" }) };
                                Some(Viol::new(sig, format!("verification accepts the proof with {what}"), cj))
                            }
                            Ok(Err(_)) => None,
                        }
                    }
                };
                match v {
                    None => fps.push((pos as u64) << 8 | val as u64 | (set as u64) << 40),
                    Some(v) => {
                        if !soft.iter().any(|x| x.sig == v.sig) {
                            soft.push(v);
                        }
                    }
                }
            }
        }
        Ok(Info { nontrivial: fps.first().copied(), extra_nontrivial: fps, classes: vec![format!("sweep:{}", SETS[set])], evals, soft, ..Info::default() })
    });
}

pub fn run(ctx: &Ctx) {
    *ctx.level.lock().unwrap() = "fault_enumeration".into();
    ctx.set_rule("valid (program, inputs, outputs, proof) tuples from the C01 generator; per tuple a stream of generated single alterations: one input/output element at any position incl. overflow, input count, overflow addresses (changed/dropped/added), program hash limb, kernel procedure added/removed/altered, another tuple's statement, hash tag relabelled, proof re-wrapped under another hash function, truncation/extension, bit flips and byte sets stratified by region (header 40%, tail 10%, body 50%); honest proofs with parameters outside the accepted sets; oracle: decoder or verifier returns an error - acceptance or a panic is a violation; alterations that leave the padded statement or the decoded proof unchanged are trivial; non-trivial = semantic alteration; distinct by (alteration kind, region, option set)");
    check_weak_options(ctx);
    check_sweep(ctx);
    let na = if ctx.quick() { 250 } else { 1500 };
    ctx.run("blake3-96", ctx.n(20, 220), || vec(any::<u16>(), 20..400), move |c| check(c, 0, na));
    ctx.run("blake3-128", ctx.n(4, 40), || vec(any::<u16>(), 20..400), move |c| check(c, 1, na));
    ctx.run("rpo-96", ctx.n(4, 40), || vec(any::<u16>(), 20..200), move |c| check(c, 2, na));
}

pub fn replay(ctx: &Ctx, v: &serde_json::Value) {
    // alterations are a deterministic function of the generator input; the case is reproduced by
    // regenerating the tuple from the stored source and re-running a fresh alteration stream
    let case = Case::from_json(&v["case"]["case"]);
    let set = SETS.iter().position(|s| Some(*s) == v["case"]["option_set"].as_str()).unwrap_or(0);
    let out = (|| -> Out {
        let Ok(Proved { program, outputs, proof }) = round_trip(&case, set, 64)? else { return Ok(Info::default()) };
        let bytes = proof.to_bytes();
        let t = Tuple { inputs: case.stack.clone(), case: case.clone(), set, info: program_info(&program), outputs, proof, bytes };
        let seed: Vec<u16> = (0..40_000u32).map(|i| (i.wrapping_mul(2654435761) >> 7) as u16).collect();
        let mut ch = Ch::new(&seed);
        let want = v["signature"].as_str().unwrap_or("");
        for _ in 0..3000 {
            if let Err(e) = alter(&t, &mut ch, None) {
                if e.sig == want || !(e.sig.starts_with("C02:malformed-proof-panic:") || e.sig.contains("fri-num-partitions")) {
                    return Err(e);
                }
            }
        }
        Ok(Info::default())
    })();
    ctx.record("replay", out);
    let _ = options;
    let _ = ExecutionOptions::default();
}
