//! C14 — execution is deterministic and step-through agrees with the trace.

use crate::common::*;
use crate::engine::{fp_str, Ctx, Info, Out, Viol};
use crate::gen::{generate, GenCfg};
use crate::model::{render_with, RenderOpts};
use crate::tracekit::{self as tk, opc};
use crate::vm::{self, Assembled, Case, Ran};
use processor::{ExecutionOptions, VmState};
use proptest::collection::vec;
use proptest::prelude::*;
use serde_json::json;
use std::collections::BTreeMap;
use vm_core::{Felt, StarkField};
use winter_prover::matrix::ColMatrix;
use winter_prover::Trace;

fn cfg() -> GenCfg {
    GenCfg { max_nodes: 45, w: [8, 8, 10, 5, 8, 3, 1, 6], ..full_cfg() }
}

const HINTS: [u32; 6] = [64, 100, 128, 512, 4096, 1 << 16];

/// stack contents (top first, all items) at every row, reconstructed from the stack columns and
/// the depth column: an item leaves the top 16 when the depth grows and comes back when it shrinks;
/// a call hides everything beyond 16 until the matching END.
pub fn stacks_by_row(main: &ColMatrix<Felt>, init_deep_top_first: &[u64]) -> Vec<Vec<u64>> {
    let n = main.num_rows() - 1;
    let mut out = Vec::with_capacity(n);
    let mut ovf: Vec<u64> = init_deep_top_first.iter().rev().copied().collect(); // top of the overflow is the end
    let mut saved: Vec<Vec<u64>> = vec![];
    let mut blocks: Vec<u8> = vec![];
    let g = |c: usize, r: usize| tk::col_u64(main, c, r);
    for r in 0..n {
        let mut st: Vec<u64> = (0..16).map(|k| g(tk::STACK + k, r)).collect();
        st.extend(ovf.iter().rev());
        out.push(st);
        if r + 1 >= n {
            break;
        }
        let op = tk::opcode_at(main, r);
        match op {
            opc::JOIN | opc::SPLIT | opc::LOOP | opc::SPAN | opc::DYN => blocks.push(op),
            opc::CALL | opc::SYSCALL => {
                blocks.push(op);
                saved.push(std::mem::take(&mut ovf));
                continue;
            }
            opc::END => {
                if let Some(b) = blocks.pop() {
                    if b == opc::CALL || b == opc::SYSCALL {
                        ovf = saved.pop().unwrap_or_default();
                        continue;
                    }
                }
            }
            _ => {}
        }
        let (d0, d1) = (g(tk::B0, r), g(tk::B0, r + 1));
        if d1 == d0 + 1 {
            ovf.push(g(tk::STACK + 15, r));
        } else if d1 + 1 == d0 {
            ovf.pop();
        }
    }
    out
}

/// What the overflow-table history of the pinned tree yields for the items below position 15 at
/// clock t (known finding C14:iter-stack-overflow-history): one global list over all contexts,
/// including the effect of the operation executed *at* cycle t, and nothing at all until the first
/// shift across position 15 has been recorded. Used only to recognise that exact pattern.
pub fn history_deep_by_row(main: &ColMatrix<Felt>, init_deep_top_first: &[u64]) -> Vec<Vec<u64>> {
    let n = main.num_rows() - 1;
    let mut out = Vec::with_capacity(n);
    let mut g: Vec<u64> = init_deep_top_first.iter().rev().copied().collect();
    let mut recorded = false;
    let col = |c: usize, r: usize| tk::col_u64(main, c, r);
    for r in 0..n {
        if r + 1 < n {
            let op = tk::opcode_at(main, r);
            let (d0, d1) = (col(tk::B0, r), col(tk::B0, r + 1));
            let is_ctx_switch = op == opc::CALL || op == opc::SYSCALL || (op == opc::END && d1 != d0 && (col(tk::DEC_H + 6, r) == 1 || col(tk::DEC_H + 7, r) == 1));
            if !is_ctx_switch {
                if d1 == d0 + 1 {
                    g.push(col(tk::STACK + 15, r));
                    recorded = true;
                } else if d1 + 1 == d0 {
                    g.pop();
                    recorded = true;
                }
            }
        }
        out.push(if recorded { g.iter().rev().copied().collect() } else { vec![] });
    }
    out
}

/// memory of every context at the beginning of every cycle: rows of the memory chiplet with clk < t
pub fn mem_rows(main: &ColMatrix<Felt>) -> Vec<(u64, u64, u64, [u64; 4])> {
    let n = main.num_rows() - 1;
    let mut v = vec![];
    for r in 0..n {
        if tk::col_u64(main, tk::CHIP, r) == 1 && tk::col_u64(main, tk::CHIP + 1, r) == 1 && tk::col_u64(main, tk::CHIP + 2, r) == 0 {
            v.push((
                tk::col_u64(main, tk::CHIP + 5, r),
                tk::col_u64(main, tk::CHIP + 6, r),
                tk::col_u64(main, tk::CHIP + 7, r),
                [0, 1, 2, 3].map(|k| tk::col_u64(main, tk::CHIP + 8 + k, r)),
            ));
        }
    }
    v
}

fn check_state(s: &VmState, main: &ColMatrix<Felt>, stacks: &[Vec<u64>], hist: &[Vec<u64>], mem: &[(u64, u64, u64, [u64; 4])], cj: &dyn Fn() -> serde_json::Value, soft: &mut Vec<Viol>) -> Result<(), Viol> {
    let t = s.clk as usize;
    if t >= stacks.len() {
        return Err(Viol::new("C14:iter-clk-range", format!("iterator returned clk {} beyond the executed cycles", t), cj()));
    }
    let got: Vec<u64> = s.stack.iter().map(|f| f.as_int()).collect();
    if got != stacks[t] {
        // known finding: the items below position 15 are reported as they are one cycle later
        let top_ok = got.len() >= 16 && got[..16] == stacks[t][..16];
        let history_pattern = top_ok && got[16..] == hist[t][..];
        let sig = if history_pattern { "C14:iter-stack-overflow-history" } else { "C14:iter-stack" };
        let v = Viol::new(sig, format!("stack reported at clk {t} differs from the trace: {:?} vs {:?}", got, stacks[t]), cj());
        if history_pattern {
            if soft.is_empty() {
                soft.push(v);
            }
        } else {
            return Err(v);
        }
    } else if got.len() as u64 != tk::col_u64(main, tk::B0, t) {
        return Err(Viol::new("C14:iter-depth", format!("stack length {} at clk {t}, depth column {}", got.len(), tk::col_u64(main, tk::B0, t)), cj()));
    }
    if s.fmp.as_int() != tk::col_u64(main, tk::FMP, t) {
        return Err(Viol::new("C14:iter-fmp", format!("fmp at clk {t}: {} vs trace {}", s.fmp.as_int(), tk::col_u64(main, tk::FMP, t)), cj()));
    }
    let ctx: u32 = s.ctx.into();
    if ctx as u64 != tk::col_u64(main, tk::CTX, t) {
        return Err(Viol::new("C14:iter-ctx", format!("ctx at clk {t}: {} vs trace {}", ctx, tk::col_u64(main, tk::CTX, t)), cj()));
    }
    if t > 0 {
        let want_op = tk::opcode_at(main, t - 1);
        match s.op {
            Some(op) if op.op_code() == want_op => {}
            other => return Err(Viol::new("C14:iter-op", format!("op at clk {t}: {:?} vs trace opcode {want_op}", other), cj())),
        }
    }
    let mut want: BTreeMap<u64, [u64; 4]> = BTreeMap::new();
    for (c, a, k, v) in mem {
        if *c == ctx as u64 && (*k as usize) < t {
            want.insert(*a, *v);
        }
    }
    let got: BTreeMap<u64, [u64; 4]> = s.memory.iter().map(|(a, w)| (*a, w.map(|f| f.as_int()))).collect();
    if got != want {
        return Err(Viol::new("C14:iter-memory", format!("memory of ctx {ctx} at clk {t}: {:?} vs trace {:?}", got, want), cj()));
    }
    Ok(())
}

pub fn check_iter(case: &Case, program: &vm_core::Program, trace: &processor::ExecutionTrace, script: &[u16], soft: &mut Vec<Viol>) -> Result<(usize, usize), Viol> {
    let cj = || json!({"case": case.to_json(), "script": script});
    let main = trace.main_segment();
    let init_deep: &[u64] = if case.stack.len() > 16 { &case.stack[16..] } else { &[] };
    let stacks = stacks_by_row(main, init_deep);
    let hist = history_deep_by_row(main, init_deep);
    let mem = mem_rows(main);
    let cycles = trace.trace_len_summary().main_trace_len();
    // forward sweep: exactly the states 0..=cycles
    let r = vm::catch(|| {
        let mut it = processor::execute_iter(program, case.stack_inputs(), case.host());
        let mut seen = 0usize;
        loop {
            match it.next() {
                Some(Ok(s)) => {
                    if s.clk as usize != seen {
                        return Err(Viol::new("C14:iter-forward-order", format!("forward sweep returned clk {} as item {}", s.clk, seen), cj()));
                    }
                    check_state(&s, main, &stacks, &hist, &mem, &cj, soft)?;
                    seen += 1;
                }
                Some(Err(e)) => return Err(Viol::new("C14:iter-error", format!("iterator reports an error for a succeeding program: {e}"), cj())),
                None => break,
            }
        }
        if seen != cycles + 1 {
            return Err(Viol::new("C14:iter-forward-count", format!("forward sweep returned {seen} states, trace has {} cycles", cycles), cj()));
        }
        Ok(())
    });
    match r {
        Ok(x) => x?,
        Err(p) => return Err(Viol::new(format!("C14:iter-panic:{}", crate::diff::panic_site(&p)), format!("forward sweep panicked: {p}"), cj())),
    }
    // scripted stepping
    let mut reversals = 0usize;
    let mut steps = 0usize;
    let r = vm::catch(|| {
        let mut it = processor::execute_iter(program, case.stack_inputs(), case.host());
        let mut last_dir_fwd = true;
        let mut last_clk: Option<u32> = None;
        let mut nones_in_row = 0;
        for (i, &mv) in script.iter().enumerate() {
            // runs of moves: low bits = length, top bit = direction
            let fwd = mv & 1 == 0 || i == 0;
            let len = 1 + ((mv >> 1) as usize % 12);
            for _ in 0..len {
                steps += 1;
                let res = if fwd { it.next().map(|r| r.ok()) } else { it.back().map(Some) };
                if fwd != last_dir_fwd {
                    reversals += 1;
                    last_dir_fwd = fwd;
                }
                match res {
                    Some(Some(s)) => {
                        nones_in_row = 0;
                        check_state(&s, main, &stacks, &hist, &mem, &cj, soft)?;
                        if let Some(l) = last_clk {
                            let d = s.clk as i64 - l as i64;
                            if d.abs() > 1 {
                                return Err(Viol::new("C14:iter-jump", format!("stepping moved the clock from {l} to {}", s.clk), cj()));
                            }
                        }
                        last_clk = Some(s.clk);
                    }
                    Some(None) => return Err(Viol::new("C14:iter-error", "iterator reports an error for a succeeding program", cj())),
                    None => {
                        nones_in_row += 1;
                        // None is legitimate only at the ends: moving back at the first state or
                        // forward past the last one
                        let at_start = last_clk.map(|c| c <= 1).unwrap_or(true);
                        let at_end = last_clk.map(|c| c as usize + 1 >= cycles).unwrap_or(false);
                        if (!fwd && !at_start) || (fwd && !at_end) {
                            return Err(Viol::new(
                                "C14:iter-dead",
                                format!("{} returned None in the middle of the execution (last clk {:?}, {} cycles)", if fwd { "next()" } else { "back()" }, last_clk, cycles),
                                cj(),
                            ));
                        }
                        if nones_in_row > 40 {
                            return Ok(());
                        }
                    }
                }
            }
        }
        Ok(())
    });
    match r {
        Ok(x) => x?,
        Err(p) => return Err(Viol::new(format!("C14:iter-panic:{}", crate::diff::panic_site(&p)), format!("stepping panicked: {p}"), cj())),
    }
    Ok((reversals, steps))
}

pub fn check_clk(case: &Case, main: &ColMatrix<Felt>) -> Result<usize, Viol> {
    let n = main.num_rows() - 2;
    let mut k = 0;
    for r in 0..n {
        if tk::opcode_at(main, r) == opc::CLK {
            k += 1;
            if tk::col_u64(main, tk::STACK, r + 1) != tk::col_u64(main, tk::CLK, r) {
                return Err(Viol::new("C14:clk-value", format!("clk executed at cycle {} pushed {}", tk::col_u64(main, tk::CLK, r), tk::col_u64(main, tk::STACK, r + 1)), json!({"case": case.to_json()})));
            }
            if tk::col_u64(main, tk::CLK, r) != r as u64 {
                return Err(Viol::new("C14:clk-column", format!("clk column at row {r} holds {}", tk::col_u64(main, tk::CLK, r)), json!({"case": case.to_json()})));
            }
        }
    }
    Ok(k)
}

pub fn check(choices: &Vec<u16>) -> Out {
    let g = generate(choices, cfg());
    let cj = || json!({"case": g.case.to_json()});
    let program = match vm::assemble(&g.case, false) {
        Assembled::Ok(p) => p,
        Assembled::Err(_) => return Ok(Info { classes: vec!["skipped:asm".into()], ..Info::default() }),
        Assembled::Panic(p) => return Err(Viol::new("C14:asm-panic", p, cj())),
    };
    let run = |prog: &vm_core::Program, case: &Case, opts: ExecutionOptions| -> Result<Option<Box<processor::ExecutionTrace>>, Viol> {
        match vm::run(prog, case, opts) {
            Ran::Ok(t, _) => Ok(Some(t)),
            Ran::Err(_, _) => Ok(None),
            Ran::Panic(p) => Err(Viol::new(format!("C14:exec-panic:{}", crate::diff::panic_site(&p)), p, cj())),
        }
    };
    let Some(t0) = run(&program, &g.case, ExecutionOptions::default())? else {
        return Ok(Info { classes: vec!["skipped:exec".into()], ..Info::default() });
    };
    // what the host saw (emit events with their clock): decorators reach the host the same way
    // however the program was assembled
    let host_log = |prog: &vm_core::Program| -> Vec<(u32, u32, u32)> {
        match vm::run(prog, &g.case, ExecutionOptions::default()) {
            Ran::Ok(_, log) => log.events.iter().copied().filter(|e| e.0 == 0 || e.0 == 3).collect(),
            _ => vec![],
        }
    };
    let log0 = host_log(&program);
    let fp0 = tk::main_fingerprint(t0.main_segment());
    let out0 = t0.stack_outputs().clone();
    let mut classes: Vec<String> = g.classes.iter().map(|s| s.to_string()).collect();
    // (a) same again, other hint, tracing on
    let hint = HINTS[choices.get(1).copied().unwrap_or(0) as usize % HINTS.len()];
    for (label, opts) in [
        ("rerun", ExecutionOptions::default()),
        ("hint", ExecutionOptions::new(None, hint, false).unwrap()),
        ("tracing", ExecutionOptions::new(None, hint, true).unwrap()),
    ] {
        let Some(t) = run(&program, &g.case, opts)? else {
            return Err(Viol::new(format!("C14:nondeterministic-outcome:{label}"), "execution succeeded once and failed on a re-run", cj()));
        };
        if tk::main_fingerprint(t.main_segment()) != fp0 || *t.stack_outputs() != out0 || t.length() != t0.length() {
            return Err(Viol::new(format!("C14:trace-differs:{label}"), format!("main segment or outputs differ on re-execution ({label}, hint {hint})"), cj()));
        }
    }
    // (b) debug-mode assembly and decorator-free source
    match vm::assemble(&g.case, true) {
        Assembled::Ok(pd) => {
            if pd.hash() != program.hash() {
                return Err(Viol::new("C14:debug-mode-hash", "assembling in debug mode changes the program hash", cj()));
            }
            let Some(t) = run(&pd, &g.case, ExecutionOptions::default())? else {
                return Err(Viol::new("C14:debug-mode-outcome", "program assembled in debug mode fails", cj()));
            };
            if tk::main_fingerprint(t.main_segment()) != fp0 {
                return Err(Viol::new("C14:trace-differs:debug-mode", "main segment differs when assembled in debug mode", cj()));
            }
            let logd = host_log(&pd);
            if logd != log0 {
                return Err(Viol::new(
                    "C14:host-events-differ:debug-mode",
                    format!("the emit events and advice injections delivered to the host differ when the program is assembled in debug mode: {} events vs {}", logd.len(), log0.len()),
                    cj(),
                ));
            }
            if !log0.is_empty() {
                classes.push("emit-events-compared".into());
            }
        }
        Assembled::Err(e) => return Err(Viol::new("C14:debug-mode-asm", format!("debug-mode assembly fails: {e}"), cj())),
        Assembled::Panic(p) => return Err(Viol::new("C14:asm-panic", p, cj())),
    }
    if g.classes.contains("decorator") {
        let src = render_with(&g.prog, &RenderOpts { strip_decorators: true, ..RenderOpts::default() });
        let c2 = Case { src, ..g.case.clone() };
        if let Assembled::Ok(p2) = vm::assemble(&c2, false) {
            let Some(t) = run(&p2, &c2, ExecutionOptions::default())? else {
                return Err(Viol::new("C14:decorator-outcome", "removing decorators changes the outcome", cj()));
            };
            if tk::main_fingerprint(t.main_segment()) != fp0 || *t.stack_outputs() != out0 {
                return Err(Viol::new("C14:trace-differs:decorators", "main segment or outputs differ once debug/emit/trace decorators are removed", cj()));
            }
            classes.push("decorators-stripped".into());
        }
    }
    // (c) iterator vs trace under a stepping script taken from the choices
    let script: Vec<u16> = choices.iter().rev().take(24).copied().collect();
    let mut soft = vec![];
    let (reversals, _steps) = check_iter(&g.case, &program, &t0, &script, &mut soft)?;
    let nclk = check_clk(&g.case, t0.main_segment())?;
    if nclk > 0 {
        classes.push("clk".into());
    }
    let nontrivial = reversals >= 1 && (g.max_depth > 16 || g.classes.contains("mem") || g.ctx_switches > 0);
    classes.push(format!("reversals={}", reversals.min(9)));
    let ops: Vec<String> = g.ops.iter().map(|o| format!("{:?}", o)).collect();
    Ok(Info {
        nontrivial: if nontrivial { Some(fp_str(&format!("{}|{}", ops.join(","), reversals))) } else { None },
        classes,
        sample: Some(json!({"src": g.case.src, "kernel": g.case.kernel, "stack_top_first": g.case.stack, "script": script, "hint": hint})),
        soft,
        ..Info::default()
    })
}

/// short stepping sequences enumerated exhaustively on a fixed program (lengths 1..=7 over {next, back})
pub fn check_scripts(ctx: &Ctx) {
    let src = "proc.f push.1 push.2 add mem_store.3 end begin push.9 push.8 call.f exec.f mem_load.3 push.1.2.3.4.5.6.7.8.9 push.10.11.12.13.14.15.16.17 dropw dropw dropw dropw drop clk drop end";
    let case = Case { src: src.into(), ..Case::default() };
    let Assembled::Ok(program) = vm::assemble(&case, false) else {
        ctx.record("scripts", Err(Viol::new("C14:scripts-setup", "the fixed stepping program does not assemble", json!({"case": case.to_json()}))));
        return;
    };
    let Ran::Ok(t0, _) = vm::run(&program, &case, ExecutionOptions::default()) else {
        ctx.record("scripts", Err(Viol::new("C14:scripts-setup", "the fixed stepping program does not execute", json!({"case": case.to_json()}))));
        return;
    };
    let mut scripts: Vec<Vec<u16>> = vec![];
    for len in 1..=7u32 {
        for bits in 0..(1u32 << len) {
            // each move is a run of length 1: even = next, odd = back (first is forced forward)
            scripts.push((0..len).map(|k| if bits >> k & 1 == 1 { 1 + 24 } else { 24 }).collect());
        }
    }
    ctx.run_list("scripts", &scripts, |s| {
        let mut soft = vec![];
        let (rev, _) = check_iter(&case, &program, &t0, s, &mut soft)?;
        Ok(Info { nontrivial: if rev > 0 { Some(fp_str(&format!("{:?}", s))) } else { None }, classes: vec![format!("script-len={}", s.len())], soft, ..Info::default() })
    });
}

pub fn run(ctx: &Ctx) {
    ctx.set_rule("programs from the full generator with debug/emit/trace decorators sprinkled in; re-execution, other expected-cycles hint, tracing flag, debug-mode assembly and decorator-free source must give the identical main segment (all 70 columns) and outputs; every VmState returned by forward sweeps and generated next/back scripts is compared with stack (incl. overflow reconstructed from the trace), depth, fmp, ctx, op and per-context memory of the trace at that clock; clk rows push the clock column; non-trivial = >= 1 reversal and (overflow or memory or context switch); distinct by (instruction set, reversals)");
    check_scripts(ctx);
    ctx.run("programs", ctx.n(2500, 200_000), || vec(any::<u16>(), 30..500), check);
}

pub fn replay(ctx: &Ctx, v: &serde_json::Value) {
    let case = Case::from_json(&v["case"]["case"]);
    let script: Vec<u16> = v["case"]["script"].as_array().map(|a| a.iter().map(|x| x.as_u64().unwrap_or(0) as u16).collect()).unwrap_or_else(|| vec![24, 25, 24, 25, 25, 24]);
    let out = (|| -> Out {
        let Assembled::Ok(program) = vm::assemble(&case, false) else { return Ok(Info::default()) };
        let Ran::Ok(t0, _) = vm::run(&program, &case, ExecutionOptions::default()) else { return Ok(Info::default()) };
        let mut soft = vec![];
        check_iter(&case, &program, &t0, &script, &mut soft)?;
        if let Some(v) = soft.pop() {
            return Err(v);
        }
        check_clk(&case, t0.main_segment())?;
        for opts in [ExecutionOptions::new(None, 4096, true).unwrap()] {
            if let Ran::Ok(t, _) = vm::run(&program, &case, opts) {
                if tk::main_fingerprint(t.main_segment()) != tk::main_fingerprint(t0.main_segment()) {
                    return Err(Viol::new("C14:trace-differs:hint", "main segment differs", v["case"].clone()));
                }
            }
        }
        Ok(Info::default())
    })();
    ctx.record("replay", out);
}
