//! C07 — contexts isolate memory and stack; memory is zero-initialised word RAM.

use crate::diff;
use crate::engine::{fp_str, Ctx, Info, Out, Viol};
use crate::gen::{generate, Expect, GenCfg, Generated};
use crate::tracekit::{self as tk, opc};
use crate::vm::{self, Assembled, Case, Ran};
use processor::{ContextId, ExecutionOptions, Process, ProcessState};
use proptest::collection::vec;
use proptest::prelude::*;
use serde_json::json;
use std::collections::BTreeMap;
use vm_core::{Felt, StarkField};
use winter_prover::matrix::ColMatrix;
use winter_prover::Trace;

fn cfg(fail: bool) -> GenCfg {
    GenCfg {
        max_nodes: 60,
        max_nest: 2,
        ctrl: true,
        procs: true,
        calls: true,
        kernel: true,
        dyns: true,
        mem: true,
        locals: true,
        adv: true,
        crypto: false,
        decorators: false,
        env: true,
        fail,
        max_inputs: 40,
        w: [4, 3, 8, 4, 14, 4, 0, 1],
        kernel_pre: 3,
        ..GenCfg::default()
    }
}

// memory chiplet columns (docs/src/design/chiplets/memory.md): three chiplet selectors 1,1,0 then
// s0 s1 ctx addr clk v0 v1 v2 v3 d0 d1 d_inv
const M_S0: usize = tk::CHIP + 3;
const M_S1: usize = tk::CHIP + 4;
const M_CTX: usize = tk::CHIP + 5;
const M_ADDR: usize = tk::CHIP + 6;
const M_CLK: usize = tk::CHIP + 7;
const M_V: usize = tk::CHIP + 8;

fn is_mem_row(m: &ColMatrix<Felt>, r: usize) -> bool {
    tk::col_u64(m, tk::CHIP, r) == 1 && tk::col_u64(m, tk::CHIP + 1, r) == 1 && tk::col_u64(m, tk::CHIP + 2, r) == 0
}

/// history invariant straight from the trace: within each (ctx, addr) the rows are ordered by
/// clk; a read returns the last value written (or zeros), an element store changes only v0.
pub fn check_mem_history(main: &ColMatrix<Felt>, cj: &dyn Fn() -> serde_json::Value) -> Result<(usize, usize), Viol> {
    let n = main.num_rows() - 1;
    let mut last: BTreeMap<(u64, u64), (u64, [u64; 4])> = BTreeMap::new();
    let mut prev_key: Option<(u64, u64, u64)> = None;
    let (mut rows, mut reads) = (0, 0);
    for r in 0..n {
        if !is_mem_row(main, r) {
            continue;
        }
        rows += 1;
        let (s0, s1) = (tk::col_u64(main, M_S0, r), tk::col_u64(main, M_S1, r));
        let (ctx, addr, clk) = (tk::col_u64(main, M_CTX, r), tk::col_u64(main, M_ADDR, r), tk::col_u64(main, M_CLK, r));
        let v = [0, 1, 2, 3].map(|k| tk::col_u64(main, M_V + k, r));
        if addr >> 32 != 0 {
            return Err(Viol::new("C07:mem-trace-addr", format!("memory row {r} has address {addr} >= 2^32"), cj()));
        }
        if let Some(pk) = prev_key {
            if (ctx, addr, clk) <= pk && (ctx, addr) == (pk.0, pk.1) {
                return Err(Viol::new("C07:mem-trace-order", format!("memory rows not ordered by clk at row {r}"), cj()));
            }
            if (ctx, addr) < (pk.0, pk.1) {
                return Err(Viol::new("C07:mem-trace-order", format!("memory rows not ordered by (ctx, addr) at row {r}"), cj()));
            }
        }
        prev_key = Some((ctx, addr, clk));
        let before = last.get(&(ctx, addr)).map(|x| x.1);
        // which operation made this access?
        let op = tk::opcode_at(main, clk as usize);
        if s0 == 1 {
            reads += 1;
            let want = before.unwrap_or([0; 4]);
            if v != want {
                return Err(Viol::new("C07:mem-read-value", format!("read of ({ctx},{addr}) at clk {clk} returns {:?}, last written {:?}", v, want), cj()));
            }
            if (before.is_none() && s1 != 0) || (before.is_some() && s1 != 1) {
                return Err(Viol::new("C07:mem-selector", format!("wrong init/copy selector at memory row {r}"), cj()));
            }
        } else if op == opc::MSTORE {
            let old = before.unwrap_or([0; 4]);
            if v[1..] != old[1..] {
                return Err(Viol::new("C07:mem-store-element", format!("element store to ({ctx},{addr}) at clk {clk} changed elements 1..3: {:?} -> {:?}", old, v), cj()));
            }
        }
        last.insert((ctx, addr), (clk, v));
    }
    Ok((rows, reads))
}

/// after each CALL/SYSCALL .. END pair ctx, fmp, fn hash, depth and overflow address are restored;
/// inside, the depth is 16, fmp is the documented base and the context is fresh (or the root).
pub fn check_frames(main: &ColMatrix<Felt>, cj: &dyn Fn() -> serde_json::Value) -> Result<usize, Viol> {
    let n = main.num_rows() - 1;
    let mut stack: Vec<(u8, usize)> = vec![];
    let mut seen_ctx: Vec<u64> = vec![0];
    let mut calls = 0;
    let g = |c: usize, r: usize| tk::col_u64(main, c, r);
    for r in 0..n {
        let op = tk::opcode_at(main, r);
        match op {
            opc::JOIN | opc::SPLIT | opc::LOOP | opc::SPAN | opc::DYN => stack.push((op, r)),
            opc::CALL | opc::SYSCALL => {
                calls += 1;
                stack.push((op, r));
                if g(tk::B0, r + 1) != 16 {
                    return Err(Viol::new("C07:frame-depth", format!("callee does not start with depth 16 at row {r}"), cj()));
                }
                let ctx = g(tk::CTX, r + 1);
                if op == opc::CALL {
                    if seen_ctx.contains(&ctx) {
                        return Err(Viol::new("C07:frame-ctx-reuse", format!("call at row {r} enters context {ctx} which was used before"), cj()));
                    }
                    seen_ctx.push(ctx);
                    if g(tk::FMP, r + 1) != 1 << 30 {
                        return Err(Viol::new("C07:frame-fmp", format!("fmp after call at row {r} is {}", g(tk::FMP, r + 1)), cj()));
                    }
                } else {
                    if ctx != 0 {
                        return Err(Viol::new("C07:frame-syscall-ctx", format!("syscall at row {r} runs in context {ctx}"), cj()));
                    }
                    if g(tk::FMP, r + 1) != 1 << 31 {
                        return Err(Viol::new("C07:frame-fmp", format!("fmp after syscall at row {r} is {}", g(tk::FMP, r + 1)), cj()));
                    }
                }
            }
            opc::END => {
                let Some((sop, sr)) = stack.pop() else {
                    return Err(Viol::new("C07:frame-nesting", format!("END without block start at row {r}"), cj()));
                };
                if sop == opc::CALL || sop == opc::SYSCALL {
                    for (c, what) in [(tk::CTX, "ctx"), (tk::FMP, "fmp"), (tk::IN_SYSCALL, "in_syscall"), (tk::B0, "depth"), (tk::B1, "overflow address"), (tk::FN_HASH, "fn hash 0"), (tk::FN_HASH + 1, "fn hash 1"), (tk::FN_HASH + 2, "fn hash 2"), (tk::FN_HASH + 3, "fn hash 3")] {
                        if g(c, r + 1) != g(c, sr) {
                            return Err(Viol::new(format!("C07:frame-restore:{}", what.split(' ').next().unwrap()), format!("{what} after the END at row {r} is {}, before the call at row {sr} it was {}", g(c, r + 1), g(c, sr)), cj()));
                        }
                    }
                }
            }
            _ => {}
        }
    }
    Ok(calls)
}

pub fn final_memory(case: &Case, program: &vm_core::Program, ctxs: &[u64]) -> Result<BTreeMap<(u32, u64), [u64; 4]>, String> {
    let mut host = case.host();
    let r = vm::catch(|| {
        let mut p = Process::new(program.kernel().clone(), case.stack_inputs(), &mut host, crate::vm::capped(ExecutionOptions::default()));
        p.execute(program).map_err(|e| format!("{e}"))?;
        let mut out = BTreeMap::new();
        for (i, c) in ctxs.iter().enumerate() {
            for (addr, w) in p.get_mem_state(ContextId::from(*c as u32)) {
                out.insert((i as u32, addr), w.map(|f| f.as_int()));
            }
        }
        Ok::<_, String>(out)
    });
    match r {
        Ok(x) => x,
        Err(p) => Err(format!("panic: {p}")),
    }
}

pub fn check_model(choices: &Vec<u16>, fail: bool) -> Out {
    let g = generate(choices, cfg(fail));
    check_generated(&g)
}

pub fn check_generated(g: &Generated) -> Out {
    let (procs, kprocs) = diff::names(g);
    let (outcome, trace) = diff::check_expect("C07", &g.case, &g.expect, g.uncertain, &procs, &kprocs)?;
    let cj = || diff::replay_json(&g.case, &g.expect, &procs, &kprocs);
    let mut classes = vec![];
    let mut extra = 0u64;
    if let Some(t) = trace {
        let main = t.main_segment();
        let (rows, _reads) = check_mem_history(main, &cj)?;
        let calls = check_frames(main, &cj)?;
        extra += rows as u64 + calls as u64;
        // final memory of every context vs the model: contexts in order of creation
        let n = main.num_rows() - 1;
        let mut ctxs: Vec<u64> = vec![0];
        for r in 0..n {
            let c = tk::col_u64(main, tk::CTX, r);
            if !ctxs.contains(&c) {
                ctxs.push(c);
            }
        }
        if ctxs.len() as u32 != g.n_ctx {
            return Err(Viol::new("C07:ctx-count", format!("execution used {} contexts, the model {}", ctxs.len(), g.n_ctx), cj()));
        }
        if let Assembled::Ok(program) = vm::assemble(&g.case, false) {
            let got = final_memory(&g.case, &program, &ctxs).map_err(|e| Viol::new("C07:final-mem-exec", e, cj()))?;
            let want: BTreeMap<(u32, u64), [u64; 4]> = g.final_mem.iter().cloned().collect();
            // resolve symbolic words stored in memory
            for (k, w) in &want {
                let w = diff::resolve_syms(&g.case, w, &procs, &kprocs).map_err(|e| Viol::new("C07:sym", e, cj()))?;
                let gw = got.get(k).copied().unwrap_or([0; 4]);
                if gw.to_vec() != w {
                    return Err(Viol::new("C07:final-mem", format!("memory of context #{} at address {}: got {:?}, model {:?}", k.0, k.1, gw, w), cj()));
                }
            }
            for (k, gw) in &got {
                if !want.contains_key(k) && *gw != [0; 4] {
                    return Err(Viol::new("C07:final-mem-extra", format!("memory of context #{} at address {} holds {:?}, the model never wrote it", k.0, k.1, gw), cj()));
                }
            }
            classes.push(format!("contexts={}", ctxs.len().min(5)));
        }
    }
    let nontrivial = g.ctx_switches >= 1 && g.classes.contains("mem");
    let mut info = diff::info_for(g, &outcome, nontrivial);
    info.classes.extend(classes);
    let _ = extra;
    Ok(info)
}

/// error paths the assembler refuses to produce, and the depth rule, enumerated
pub fn check_paths(ctx: &Ctx) {
    use vm_core::code_blocks::CodeBlock;
    use vm_core::{CodeBlockTable, Kernel, Operation, Program};
    let items: Vec<u32> = (0..12).collect();
    ctx.run_list("paths", &items, |&k| {
        let cj = json!({"path": k});
        let fpv = Some(fp_str(&format!("path{k}")));
        let expect_err = |r: Result<Result<(), String>, String>, want: &str, sig: &str| -> Out {
            match r {
                Err(p) => Err(Viol::new(format!("C07:{sig}-panic"), p, cj.clone())),
                Ok(Ok(())) => Err(Viol::new(format!("C07:{sig}-accepted"), format!("expected {want}, execution succeeded"), cj.clone())),
                Ok(Err(e)) if e.contains(want) => Ok(Info { nontrivial: fpv, classes: vec![format!("path:{sig}")], sample: Some(json!({"path": sig, "error": e})), ..Info::default() }),
                Ok(Err(e)) => Err(Viol::new(format!("C07:{sig}-wrong-error"), format!("expected {want}, got {e}"), cj.clone())),
            }
        };
        let exec = |p: &Program| -> Result<Result<(), String>, String> {
            vm::catch(|| {
                processor::execute(p, vm_core::StackInputs::default(), processor::DefaultHost::default(), crate::vm::capped(ExecutionOptions::default()))
                    .map(|_| ())
                    .map_err(|e| format!("{:?}", e))
            })
        };
        match k {
            0..=3 => {
                // callee returns with depth != 16
                let body = ["push.1", "push.1 push.2", "padw", "push.1 drop push.3"][k as usize];
                let via = if k % 2 == 0 { "call.f" } else { "procref.f dyncall" };
                let pre = if k % 2 == 0 { "" } else { "" };
                let src = format!("proc.f {pre} {} end begin {via} end", if k % 2 == 1 { format!("dropw {body}") } else { body.to_string() });
                let Assembled::Ok(p) = vm::assemble(&Case { src, ..Case::default() }, false) else { return Err(Viol::new("C07:path-asm", "cannot assemble", cj.clone())) };
                expect_err(exec(&p), "InvalidStackDepthOnReturn", "depth-on-return")
            }
            4..=6 => {
                // syscall whose target is not in the kernel the program runs against
                let kernel_src = "export.k0 push.1 drop end export.k1 push.2 drop end";
                let case = Case { src: "begin syscall.k0 end".into(), kernel: Some(kernel_src.into()), ..Case::default() };
                let Assembled::Ok(p) = vm::assemble(&case, false) else { return Err(Viol::new("C07:path-asm", "cannot assemble", cj.clone())) };
                let kernel = match k {
                    4 => Kernel::default(),
                    5 => Kernel::new(&[p.kernel().proc_hashes()[1]]).unwrap(),
                    _ => Kernel::new(&[p.kernel().proc_hashes()[0]]).unwrap(),
                };
                // keep only the other procedure in the kernel: k0's root is whichever hash the call targets
                let target = match p.root() {
                    CodeBlock::Call(c) => c.fn_hash(),
                    _ => return Err(Viol::new("C07:path-asm", "unexpected program shape", cj.clone())),
                };
                let in_kernel = kernel.proc_hashes().contains(&target);
                let q = Program::with_kernel(p.root().clone(), kernel, p.cb_table().clone());
                if in_kernel {
                    // positive control: with the target in the kernel the syscall works
                    match exec(&q) {
                        Ok(Ok(())) => Ok(Info { nontrivial: fpv, classes: vec!["path:syscall-in-kernel".into()], ..Info::default() }),
                        other => Err(Viol::new("C07:syscall-in-kernel-fails", format!("{:?}", other), cj.clone())),
                    }
                } else {
                    expect_err(exec(&q), "SyscallTargetNotInKernel", "syscall-not-in-kernel")
                }
            }
            7 | 8 => {
                // `caller` outside a syscall: in the root context and inside a called procedure
                let span = CodeBlock::new_span(vec![Operation::Caller]);
                let p = if k == 7 {
                    Program::new(span)
                } else {
                    let mut t = CodeBlockTable::default();
                    t.insert(span.clone());
                    Program::with_kernel(CodeBlock::new_call(span.hash()), Kernel::default(), t)
                };
                expect_err(exec(&p), "CallerNotInSyscall", "caller-not-in-syscall")
            }
            _ => {
                // addresses >= 2^32 through every memory instruction
                let ins = ["mem_load", "mem_loadw", "mem_store", "mem_storew"][(k - 9) as usize % 4];
                let src = format!("begin push.4294967296 {ins} end");
                let Assembled::Ok(p) = vm::assemble(&Case { src, ..Case::default() }, false) else { return Err(Viol::new("C07:path-asm", "cannot assemble", cj.clone())) };
                expect_err(exec(&p), "MemoryAddressOutOfBounds", "addr-oob")
            }
        }
    });
}

/// `caller` in a kernel procedure reached from procedures invoked by call and by dyncall, enumerated
pub fn check_caller(ctx: &Ctx) {
    let items: Vec<(bool, u32)> = vec![(false, 0), (false, 1), (true, 0), (true, 1)];
    ctx.run_list("caller", &items, |&(dynamic, variant)| {
        let body = if variant == 0 { "push.1 drop" } else { "push.5 push.6 add drop" };
        let kernel = "export.k0 caller end";
        let invoke = if dynamic { "procref.f dyncall" } else { "call.f" };
        let pre = if dynamic { "dropw" } else { "" };
        let src = format!("proc.f {pre} {body} padw syscall.k0 swapw dropw end begin {invoke} procref.f end");
        let case = Case { src, kernel: Some(kernel.into()), ..Case::default() };
        let cj = json!({"case": case.to_json(), "caller": true, "dynamic": dynamic});
        let Assembled::Ok(p) = vm::assemble(&case, false) else { return Err(Viol::new("C07:path-asm", "cannot assemble", cj)) };
        match vm::run(&p, &case, ExecutionOptions::default()) {
            Ran::Ok(t, _) => {
                let o = vm::outputs_top_first(&t);
                // top word: procref.f; next word: what `caller` reported inside the syscall
                if o[0..4] != o[4..8] {
                    let sig = if dynamic { "C07:caller-after-dyncall" } else { "C07:caller-after-call" };
                    return Err(Viol::new(sig, format!("caller reported {:?}, the calling procedure's root is {:?}", &o[4..8], &o[0..4]), cj));
                }
                Ok(Info { nontrivial: Some(fp_str(&format!("caller{dynamic}{variant}"))), classes: vec![format!("caller-enumerated:dyn={dynamic}")], ..Info::default() })
            }
            Ran::Err(e, _) => Err(Viol::new("C07:caller-exec", format!("{e}"), cj)),
            Ran::Panic(pn) => Err(Viol::new("C07:caller-panic", pn, cj)),
        }
    });
}

/// mem_stream / adv_pipe at the end of the address space: both touched addresses must be valid
pub fn check_stream_bounds(ctx: &Ctx) {
    let addrs: Vec<(u64, bool)> = vec![(u32::MAX as u64 - 2, true), (u32::MAX as u64 - 1, true), (u32::MAX as u64, false), (1 << 32, false), ((1 << 32) + 1, false), (crate::fe::P - 1, false)];
    let mut items = vec![];
    for (a, ok) in addrs {
        for pipe in [false, true] {
            items.push((a, ok, pipe));
        }
    }
    ctx.run_list("stream-bounds", &items, |&(a, ok, pipe)| {
        let ins = if pipe { "adv_pipe" } else { "mem_stream" };
        let src = format!("begin push.9.8.7.6 mem_storew.0 dropw push.{a} padw padw padw {ins} end");
        let case = Case { src, adv: vec![1, 2, 3, 4, 5, 6, 7, 8], ..Case::default() };
        let cj = json!({"case": case.to_json(), "stream": true, "ok": ok});
        let Assembled::Ok(p) = vm::assemble(&case, false) else { return Err(Viol::new("C07:path-asm", "cannot assemble", cj)) };
        match vm::run(&p, &case, ExecutionOptions::default()) {
            Ran::Panic(pn) => Err(Viol::new("C07:stream-addr-wrap", format!("{ins} at address {a} panicked: {pn}"), cj)),
            Ran::Ok(t, _) => {
                if !ok {
                    return Err(Viol::new("C07:stream-addr-wrap", format!("{ins} at address {a} succeeded although address a+1 is not below 2^32"), cj));
                }
                let o = vm::outputs_top_first(&t);
                if o[12] != a + 2 {
                    return Err(Viol::new("C07:stream-addr-wrap", format!("{ins} at address {a} left {} instead of a+2 on the stack", o[12]), cj));
                }
                Ok(Info { nontrivial: Some(fp_str(&format!("{ins}{a}"))), classes: vec!["stream-bound-ok".into()], ..Info::default() })
            }
            Ran::Err(e, _) => {
                if ok {
                    return Err(Viol::new("C07:stream-addr-rejected", format!("{ins} at valid address {a} failed: {e}"), cj));
                }
                Ok(Info { nontrivial: Some(fp_str(&format!("{ins}{a}"))), classes: vec!["stream-bound-err".into()], ..Info::default() })
            }
        }
    });
}

pub fn run(ctx: &Ctx) {
    ctx.set_rule("call graphs over generated procedures (exec/call/syscall with kernel/dynexec/dyncall, locals) doing loads/stores over a colliding address pool, compared with the per-context reference model on final stack, final memory of every context and failure; memory-chiplet history and CALL..END frame invariants read from the trace; enumerated error paths; non-trivial = >= 1 context switch and memory traffic; distinct by (instruction set, outcome)");
    ctx.assume("locals are compared only after being written in the same frame activation (the documentation calls unwritten locals garbage); absolute accesses stay out of the locals regions");
    check_paths(ctx);
    check_stream_bounds(ctx);
    check_caller(ctx);
    ctx.run("model", ctx.n(10_000, 800_000), || vec(any::<u16>(), 30..600), |c| check_model(c, false));
    ctx.run("model-fail", ctx.n(3_000, 200_000), || vec(any::<u16>(), 30..500), |c| check_model(c, true));
}

pub fn replay(ctx: &Ctx, v: &serde_json::Value) {
    let c = &v["case"];
    if c.get("expect").is_some() {
        let case = Case::from_json(&c["case"]);
        let expect = diff::expect_from_json(&c["expect"]);
        let strs = |x: &serde_json::Value| -> Vec<String> { x.as_array().map(|a| a.iter().map(|s| s.as_str().unwrap().to_string()).collect()).unwrap_or_default() };
        let (procs, kprocs) = (strs(&c["procs"]), strs(&c["kprocs"]));
        let out = (|| -> Out {
            let (_, trace) = diff::check_expect("C07", &case, &expect, c["uncertain_depth"].as_bool().unwrap_or(false), &procs, &kprocs)?;
            if let Some(t) = trace {
                let cj = || c.clone();
                check_mem_history(t.main_segment(), &cj)?;
                check_frames(t.main_segment(), &cj)?;
            }
            Ok(Info::default())
        })();
        ctx.record("replay", out);
    } else if c.get("stream").is_some() {
        check_stream_bounds(ctx);
    } else if c.get("caller").is_some() {
        check_caller(ctx);
    } else {
        check_paths(ctx);
    }
}
