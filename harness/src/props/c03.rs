//! C03 — honest execution traces satisfy the entire AIR; trace length rule.

use crate::common::*;
use crate::engine::{fp_str, Ctx, Info, Out, Viol};
use crate::tracekit as tk;
use crate::vm::Case;
use processor::ExecutionOptions;
use proptest::collection::vec;
use proptest::prelude::*;
use serde_json::json;
use vm_core::{Felt, FieldElement, QuadExtension};
use winter_math::fields::CubeExtension;
use winter_prover::Trace;

const HINTS: [u32; 8] = [64, 65, 128, 1000, 1024, 4096, 1 << 14, 1 << 16];

pub fn check_trace(
    prop: &str,
    case: &Case,
    program: &vm_core::Program,
    trace: &mut processor::ExecutionTrace,
    chal: &[Felt],
    ext: u8,
) -> Result<u64, Viol> {
    let cj = || json!({"case": case.to_json()});
    let air = tk::make_air(trace, program_info(program), case.stack_inputs(), trace.stack_outputs().clone());
    let mut evals = 0u64;
    evals += tk::validate_main(&air, trace.main_segment())
        .map_err(|f| Viol::new(format!("{prop}:{}", f.sig()), format!("honest trace violates the AIR: {}", f.detail), cj()))?;
    let r = crate::vm::catch(|| match ext {
        0 => tk::validate_aux::<Felt>(&air, trace, chal).map(|x| x.1),
        1 => {
            let c: Vec<QuadExtension<Felt>> = chal.chunks(2).cycle().take(16).map(|p| QuadExtension::new(p[0], p[1])).collect();
            tk::validate_aux(&air, trace, &c).map(|x| x.1)
        }
        _ => {
            let c: Vec<CubeExtension<Felt>> = chal.chunks(3).filter(|p| p.len() == 3).cycle().take(16).map(|p| CubeExtension::new(p[0], p[1], p[2])).collect();
            tk::validate_aux(&air, trace, &c).map(|x| x.1)
        }
    })
    .map_err(|p| Viol::new(format!("{prop}:aux-build-panic:{}", crate::diff::panic_site(&p)), format!("building the auxiliary segment of an honest trace panicked: {p}"), cj()))?;
    evals += r.map_err(|f| Viol::new(format!("{prop}:{}", f.sig()), format!("honest trace violates the AIR: {}", f.detail), cj()))?;
    Ok(evals)
}

/// trace length rule, from the summary and cross-checked against the rows themselves
pub fn check_length(prop: &str, case: &Case, trace: &processor::ExecutionTrace) -> Result<(&'static str, usize), Viol> {
    let cj = || json!({"case": case.to_json()});
    let n = trace.length();
    let s = trace.trace_len_summary();
    let need = s.main_trace_len().max(s.range_trace_len()).max(s.chiplets_trace_len().trace_len());
    // the property asks for a power of two that accommodates every component plus the random
    // row; it does not ask for the smallest one (a trace holding exactly 2^k - 1 cycles needs
    // one more row for HALT)
    if !n.is_power_of_two() || n < 64 || n < need + 1 {
        return Err(Viol::new(
            format!("{prop}:length"),
            format!("trace length {n} does not accommodate cycles {}, range rows {}, chiplet rows {} plus a random row", s.main_trace_len(), s.range_trace_len(), s.chiplets_trace_len().trace_len()),
            cj(),
        ));
    }
    // independent count of executed cycles: rows before the trailing HALT padding. Opcode of HALT
    // is 0b1111111 per docs/src/design/stack/op_constraints.md; the last row is random.
    let main = trace.main_segment();
    let mut last_non_halt = 0usize;
    for r in 0..n - 1 {
        if tk::opcode_at(main, r) != tk::opc::HALT {
            last_non_halt = r;
        }
    }
    // rows 0..=last_non_halt hold executed operations (the clock at the end equals their number);
    // every later row below the random row is HALT padding
    let cycles = last_non_halt + 1;
    if cycles != s.main_trace_len() {
        return Err(Viol::new(format!("{prop}:cycle-count"), format!("summary says {} cycles, decoder columns show {}", s.main_trace_len(), cycles), cj()));
    }
    if cycles + 1 > n {
        return Err(Viol::new(format!("{prop}:length"), format!("{cycles} executed cycles do not fit {n} rows plus a random row"), cj()));
    }
    // range-checker table: v must reach 65535 before the random row; chiplets: all-ones selector
    // padding only after the last chiplet row
    let regime = if s.main_trace_len() >= s.range_trace_len() && s.main_trace_len() >= s.chiplets_trace_len().trace_len() {
        "main-dominated"
    } else if s.range_trace_len() >= s.chiplets_trace_len().trace_len() {
        "range-dominated"
    } else {
        "chiplets-dominated"
    };
    Ok((regime, n))
}

pub fn check(choices: &Vec<u16>, ext: u8) -> Out {
    let hint = HINTS[(choices.first().copied().unwrap_or(0) as usize) % HINTS.len()];
    let opts = ExecutionOptions::new(None, hint, false).unwrap();
    let ex = match exec_generated("C03", choices, full_cfg(), opts)? {
        ExecOutcome::Done(e) => e,
        ExecOutcome::Skipped(why) => {
            if std::env::var("VERIF_DEBUG").is_ok() {
                eprintln!("SKIP {}", why);
            }
            return Ok(Info { classes: vec![format!("skipped:{}", why.split(':').next().unwrap())], ..Info::default() })
        }
    };
    let Executed { g, program, mut trace } = ex;
    let chal = challenges(choices, 1);
    let evals = check_trace("C03", &g.case, &program, &mut trace, &chal, ext)?;
    let (regime, n) = check_length("C03", &g.case, &trace)?;
    // hint independence: same main segment under the default hint
    let t2 = match crate::vm::run(&program, &g.case, ExecutionOptions::default()) {
        crate::vm::Ran::Ok(t, _) => t,
        _ => return Err(Viol::new("C03:hint-dependence", "execution outcome depends on the expected-cycles hint", case_json(&g))),
    };
    if tk::main_fingerprint(t2.main_segment()) != tk::main_fingerprint(trace.main_segment()) || t2.length() != n {
        return Err(Viol::new("C03:hint-dependence", format!("main segment differs between expected-cycles hints {hint} and 64"), case_json(&g)));
    }
    let ops: Vec<String> = g.ops.iter().map(|o| format!("{:?}", o)).collect();
    let nontrivial = g.classes.len() >= 3 && (g.max_depth > 16 || g.ctx_switches > 0 || g.classes.contains("mem") || g.classes.contains("u32"));
    let mut classes: Vec<String> = g.classes.iter().map(|s| s.to_string()).collect();
    classes.push(regime.to_string());
    classes.push(format!("len=2^{}", n.trailing_zeros()));
    Ok(Info {
        nontrivial: if nontrivial { Some(fp_str(&ops.join(","))) } else { None },
        classes,
        sample: Some(json!({"src": g.case.src, "kernel": g.case.kernel, "stack_top_first": g.case.stack, "trace_len": n, "hint": hint, "constraint_evaluations": evals})),
        evals: 1,
        extra_nontrivial: vec![],
        soft: vec![],
    })
}

pub fn run(ctx: &Ctx) {
    ctx.set_rule("programs from the full generator (all instruction classes, control flow, procedures, call/syscall/dyn, memory, locals, advice) executed honestly; every main/aux transition constraint on every non-exempt row and every boundary assertion is evaluated with 16 generated challenges; trace-length rule recomputed; non-trivial = >= 3 instruction classes and (overflow or context switch or memory or u32 chiplet traffic); distinct by executed-instruction set");
    ctx.run("air-base", ctx.n(3000, 120_000), || vec(any::<u16>(), 20..600), |c| check(c, 0));
    if !ctx.quick() {
        ctx.run("air-quad", ctx.n(0, 15_000), || vec(any::<u16>(), 20..600), |c| check(c, 1));
        ctx.run("air-cubic", ctx.n(0, 15_000), || vec(any::<u16>(), 20..600), |c| check(c, 2));
    } else {
        ctx.run("air-quad", 300, || vec(any::<u16>(), 20..600), |c| check(c, 1));
        ctx.run("air-cubic", 300, || vec(any::<u16>(), 20..600), |c| check(c, 2));
    }
}

pub fn replay(ctx: &Ctx, v: &serde_json::Value) {
    let case = Case::from_json(&v["case"]["case"]);
    let out = (|| -> Out {
        let program = match crate::vm::assemble(&case, false) {
            crate::vm::Assembled::Ok(p) => p,
            _ => return Ok(Info::default()),
        };
        let mut trace = match crate::vm::run(&program, &case, ExecutionOptions::default()) {
            crate::vm::Ran::Ok(t, _) => t,
            crate::vm::Ran::Panic(p) => return Err(Viol::new("C03:exec-panic", p, v["case"].clone())),
            _ => return Ok(Info::default()),
        };
        let chal = challenges(&[1, 2, 3], 1);
        for ext in 0..3 {
            check_trace("C03", &case, &program, &mut trace, &chal, ext)?;
        }
        check_length("C03", &case, &trace)?;
        Ok(Info::default())
    })();
    ctx.record("replay", out);
}
