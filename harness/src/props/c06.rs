//! C06 — control flow and procedure inlining follow the documented semantics.

use crate::diff;
use crate::engine::{Ctx, Info, Out, Viol};
use crate::gen::{generate, Expect, GenCfg, Generated};
use crate::model::{render_with, Node, Prog, RenderOpts};
use crate::vm::{self, Assembled, Case, Ran};
use processor::ExecutionOptions;
use proptest::collection::vec;
use proptest::prelude::*;
use serde_json::json;

fn cfg(fail: bool) -> GenCfg {
    GenCfg {
        max_nodes: 60,
        max_nest: 4,
        ctrl: true,
        procs: true,
        calls: false,
        kernel: false,
        dyns: false,
        mem: true,
        locals: true,
        adv: true,
        crypto: false,
        decorators: false,
        env: false,
        fail,
        max_inputs: 24,
        w: [10, 8, 10, 4, 4, 2, 0, 0],
        ..GenCfg::default()
    }
}

fn count_ctrl(nodes: &[Node], prog: &Prog, depth: usize, max_depth: &mut usize, n: &mut usize) {
    for nd in nodes {
        match nd {
            Node::I(_) => {}
            Node::If(a, b) => {
                *n += 1;
                *max_depth = (*max_depth).max(depth + 1);
                count_ctrl(a, prog, depth + 1, max_depth, n);
                count_ctrl(b, prog, depth + 1, max_depth, n);
            }
            Node::While(a) | Node::Repeat(_, a) => {
                *n += 1;
                *max_depth = (*max_depth).max(depth + 1);
                count_ctrl(a, prog, depth + 1, max_depth, n);
            }
            Node::Exec(p) => {
                *n += 1;
                *max_depth = (*max_depth).max(depth + 1);
                count_ctrl(&prog.proc(*p).body, prog, depth + 1, max_depth, n);
            }
            _ => {}
        }
    }
}

fn nontrivial(g: &Generated) -> (bool, usize) {
    let (mut d, mut n) = (0, 0);
    count_ctrl(&g.prog.main, &g.prog, 0, &mut d, &mut n);
    (n >= 2 && d >= 1, d)
}

pub fn check_model(choices: &Vec<u16>, fail: bool) -> Out {
    let g = generate(choices, cfg(fail));
    let (procs, kprocs) = diff::names(&g);
    let (outcome, _) = diff::check_expect("C06", &g.case, &g.expect, g.uncertain, &procs, &kprocs)?;
    let (nt, d) = nontrivial(&g);
    let mut info = diff::info_for(&g, &outcome, nt);
    info.classes.push(format!("nest={}", d));
    Ok(info)
}

/// inline every `exec` of a procedure without locals (recursively)
fn inline_execs(nodes: &[Node], prog: &Prog, inlined: &mut usize) -> Vec<Node> {
    let mut out = vec![];
    for nd in nodes {
        match nd {
            Node::Exec(p) if prog.proc(*p).locals == 0 => {
                *inlined += 1;
                out.extend(inline_execs(&prog.proc(*p).body, prog, inlined));
            }
            Node::If(a, b) => out.push(Node::If(inline_execs(a, prog, inlined), inline_execs(b, prog, inlined))),
            Node::While(a) => out.push(Node::While(inline_execs(a, prog, inlined))),
            Node::Repeat(k, a) => out.push(Node::Repeat(*k, inline_execs(a, prog, inlined))),
            o => out.push(o.clone()),
        }
    }
    out
}

fn has_repeat(nodes: &[Node], prog: &Prog) -> bool {
    nodes.iter().any(|n| match n {
        Node::Repeat(..) => true,
        Node::If(a, b) => has_repeat(a, prog) || has_repeat(b, prog),
        Node::While(a) => has_repeat(a, prog),
        Node::Exec(p) => has_repeat(&prog.proc(*p).body, prog),
        _ => false,
    })
}

fn run_src(case: &Case) -> Result<(vm_core::Program, Result<Vec<u64>, String>), String> {
    let p = match vm::assemble(case, false) {
        Assembled::Ok(p) => p,
        Assembled::Err(e) => return Err(format!("asm: {e}")),
        Assembled::Panic(p) => return Err(format!("asm panic: {p}")),
    };
    let r = match vm::run(&p, case, ExecutionOptions::default()) {
        Ran::Ok(t, _) => Ok(vm::outputs_top_first(&t)),
        Ran::Err(e, _) => Err(diff::err_kind(&e)),
        Ran::Panic(pn) => return Err(format!("exec panic: {pn}")),
    };
    Ok((p, r))
}

/// model-free metamorphic relations: repeat.n B == B written n times (same MAST root, same result);
/// exec.f == body pasted at the call site for procedures without locals (same result)
pub fn check_meta(choices: &Vec<u16>) -> Out {
    let g = generate(choices, cfg(false));
    let case = g.case.clone();
    let cj = |alt: &str| json!({"case": case.to_json(), "variant_src": alt});
    let (p0, r0) = run_src(&case).map_err(|e| Viol::new("C06:meta-base", e, cj("")))?;
    let mut classes = vec![];
    let mut nt = false;
    if has_repeat(&g.prog.main, &g.prog) {
        let src = render_with(&g.prog, &RenderOpts { unroll_repeat: true, ..RenderOpts::default() });
        let c2 = Case { src: src.clone(), ..case.clone() };
        let (p1, r1) = run_src(&c2).map_err(|e| Viol::new("C06:repeat-unroll", e, cj(&src)))?;
        // (the MAST roots may differ: a repeat body made of several blocks is joined as a unit,
        // textual copies are joined flat; the property is about behaviour)
        classes.push(if p0.hash() == p1.hash() { "repeat-unrolled-same-root".to_string() } else { "repeat-unrolled-other-root".to_string() });
        if r0 != r1 {
            return Err(Viol::new("C06:repeat-unroll-result", format!("repeat.n vs n copies: {:?} vs {:?}", r0, r1), cj(&src)));
        }
        classes.push("repeat-unrolled".to_string());
        nt = true;
    }
    let mut inlined = 0;
    let main2 = inline_execs(&g.prog.main, &g.prog, &mut inlined);
    if inlined > 0 {
        let mut prog2 = g.prog.clone();
        prog2.main = main2;
        for i in 0..prog2.procs.len() {
            let b = inline_execs(&g.prog.procs[i].body, &g.prog, &mut inlined);
            prog2.procs[i].body = b;
        }
        let src = render_with(&prog2, &RenderOpts::default());
        let c2 = Case { src: src.clone(), ..case.clone() };
        let (_p1, r1) = run_src(&c2).map_err(|e| Viol::new("C06:exec-inline", e, cj(&src)))?;
        if r0 != r1 {
            return Err(Viol::new("C06:exec-inline-result", format!("exec.f vs pasted body: {:?} vs {:?}", r0, r1), cj(&src)));
        }
        classes.push("exec-inlined".to_string());
        nt = true;
    }
    let mut info = diff::info_for(&g, "meta", nt);
    info.classes.extend(classes);
    Ok(info)
}

/// the documented example and the three decision points with non-binary values, enumerated
pub fn check_nonbinary(ctx: &Ctx) {
    let vals = [2u64, 3, crate::fe::P - 1, 1 << 32, 255];
    let mut cases: Vec<(String, String)> = vec![];
    for v in vals {
        cases.push((format!("if:{v}"), format!("begin push.{v} if.true push.11 else push.22 end end")));
        cases.push((format!("while-entry:{v}"), format!("begin push.{v} while.true push.0 end end")));
        cases.push((format!("while-recheck:{v}"), format!("begin push.1 while.true push.7 push.{v} end end")));
        cases.push((format!("nested-recheck:{v}"), format!("begin push.1 push.1 if.true while.true push.{v} end else push.5 end end")));
        cases.push((format!("recheck-2nd-iter:{v}"), format!("begin push.{v} push.1 push.1 while.true push.0 drop end end")));
    }
    ctx.run_list("nonbinary", &cases, |(label, src)| {
        let case = Case { src: src.clone(), ..Case::default() };
        let cj = json!({"case": case.to_json(), "label": label});
        let what = label.split(':').next().unwrap().to_string();
        match run_src(&case) {
            Err(e) => Err(Viol::new(format!("C06:nonbinary-panic:{what}"), e, cj)),
            Ok((_, Ok(st))) => Err(Viol::new(
                format!("C06:nonbinary-accepted:{what}"),
                format!("non-binary condition value did not make execution fail; final stack top {:?}", &st[..3]),
                cj,
            )),
            Ok((_, Err(_))) => Ok(Info { nontrivial: Some(crate::engine::fp_str(label)), classes: vec![format!("nonbinary:{what}")], sample: Some(cj), ..Info::default() }),
        }
    });
}

pub fn run(ctx: &Ctx) {
    ctx.set_rule("nestings of if/else, while (advice-, memory-counter- and constant-controlled), repeat and exec (with locals) generated against the reference model; metamorphic variants (repeat unrolled, exec bodies pasted); non-binary values at if / loop entry / loop re-check; non-trivial = >= 2 control constructs; distinct by (instruction set, outcome)");
    check_nonbinary(ctx);
    ctx.run("model", ctx.n(12_000, 800_000), || vec(any::<u16>(), 20..500), |c| check_model(c, false));
    ctx.run("model-fail", ctx.n(4_000, 200_000), || vec(any::<u16>(), 20..400), |c| check_model(c, true));
    ctx.run("meta", ctx.n(4_000, 300_000), || vec(any::<u16>(), 20..400), check_meta);
    // exec / call of procedures imported from generated libraries (modules with re-exports, local
    // chains): every body adds its own constant to an accumulator, the total identifies what ran
    ctx.run("imported-procedures", ctx.n(3_000, 150_000), || vec(any::<u16>(), 60..300), |c| {
        let (src, nlibs) = crate::props::c11::check_accumulator(c, "C06")?;
        Ok(crate::engine::Info { nontrivial: Some(crate::engine::fp_str(&src)), classes: vec![format!("imported-procedures:libs={nlibs}")], sample: Some(serde_json::json!({"src": src})), ..crate::engine::Info::default() })
    });
}

pub fn replay(ctx: &Ctx, v: &serde_json::Value) {
    let c = &v["case"];
    if c.get("libs").is_some() {
        // imported-procedures sub-check: the case is a universe of libraries plus a program
        return crate::props::c11::replay(ctx, v);
    }
    let case = Case::from_json(&c["case"]);
    let sig = v["signature"].as_str().unwrap_or("");
    let out: Out = if c.get("expect").is_some() {
        let expect = diff::expect_from_json(&c["expect"]);
        let strs = |x: &serde_json::Value| -> Vec<String> { x.as_array().map(|a| a.iter().map(|s| s.as_str().unwrap().to_string()).collect()).unwrap_or_default() };
        diff::check_expect("C06", &case, &expect, c["uncertain_depth"].as_bool().unwrap_or(false), &strs(&c["procs"]), &strs(&c["kprocs"])).map(|_| Info::default())
    } else if sig.contains("nonbinary") {
        match run_src(&case) {
            Ok((_, Err(_))) => Ok(Info::default()),
            Ok((_, Ok(_))) => Err(Viol::new(sig, "non-binary condition accepted", c.clone())),
            Err(e) => Err(Viol::new(sig, e, c.clone())),
        }
    } else {
        let alt = Case { src: c["variant_src"].as_str().unwrap_or("").to_string(), ..case.clone() };
        match (run_src(&case), run_src(&alt)) {
            (Ok((p0, r0)), Ok((p1, r1))) => {
                if r0 != r1 || (sig.contains("hash") && p0.hash() != p1.hash()) {
                    Err(Viol::new(sig, "variant differs", c.clone()))
                } else {
                    Ok(Info::default())
                }
            }
            (a, b) => Err(Viol::new(sig, format!("{:?} / {:?}", a.err(), b.err()), c.clone())),
        }
    };
    ctx.record("replay", out);
}
