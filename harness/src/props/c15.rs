//! C15 — the cycle limit is enforced exactly.

use crate::common::*;
use crate::engine::{fp_str, Ctx, Info, Out, Viol};
use crate::gen::{generate, Ch, GenCfg};
use crate::vm::{self, Assembled, Case, Ran};
use processor::{ExecutionError, ExecutionOptions};
use proptest::collection::vec;
use proptest::prelude::*;
use serde_json::json;
use winter_prover::Trace;

fn cfg() -> GenCfg {
    GenCfg { max_nodes: 50, ..full_cfg() }
}

fn run_limited(program: &vm_core::Program, case: &Case, m: u32) -> Result<(Result<Vec<u64>, ExecutionError>, vm::HostLog), String> {
    let opts = ExecutionOptions::new(Some(m), 64, false).map_err(|e| format!("options refused: {e}"))?;
    match vm::run(program, case, opts) {
        Ran::Ok(t, log) => Ok((Ok(vm::outputs_top_first(&t)), log)),
        Ran::Err(e, log) => Ok((Err(e), log)),
        Ran::Panic(p) => Err(format!("panic: {p}")),
    }
}

pub fn check_terminating(choices: &Vec<u16>) -> Out {
    let ex = match exec_generated("C15", choices, cfg(), ExecutionOptions::default())? {
        ExecOutcome::Done(e) => e,
        ExecOutcome::Skipped(why) => return Ok(Info { classes: vec![format!("skipped:{}", why.split(':').next().unwrap())], ..Info::default() }),
    };
    let Executed { g, program, trace } = ex;
    let n = trace.trace_len_summary().main_trace_len() as u32;
    let outs = vm::outputs_top_first(&trace);
    let mut limits: Vec<u32> = vec![64, n / 2, n.saturating_mul(2), u32::MAX, n + 1000];
    for d in -3i64..=3 {
        limits.push((n as i64 + d).max(0) as u32);
    }
    // just below every host callback of the unlimited run (the first dozen): with such a limit the
    // callback must not happen any more, whatever kind of row the limit falls on
    if let Ok((_, log0)) = run_limited(&program, &g.case, u32::MAX) {
        for ev in log0.events.iter().filter(|e| e.0 <= 1).take(12) {
            for d in 1..=2u32 {
                if ev.2 > d {
                    limits.push(ev.2 - d);
                }
            }
        }
    }
    limits.retain(|m| *m >= 64);
    limits.sort();
    limits.dedup();
    let mut near = 0;
    for &m in &limits {
        let cj = || json!({"case": g.case.to_json(), "limit": m, "cycles": n});
        let (res, log) = run_limited(&program, &g.case, m).map_err(|e| Viol::new("C15:limit-run", e, cj()))?;
        if let Some(ev) = log.events.iter().find(|e| e.2 > m) {
            return Err(Viol::new("C15:ran-past-limit", format!("host callback at clk {} with limit {m}", ev.2), cj()));
        }
        match res {
            Ok(o) => {
                if n > m {
                    return Err(Viol::new("C15:limit-not-enforced", format!("program needs {n} cycles but succeeded with a limit of {m}"), cj()));
                }
                if o != outs {
                    return Err(Viol::new("C15:limit-changes-result", format!("outputs differ under limit {m}"), cj()));
                }
            }
            Err(ExecutionError::CycleLimitExceeded(x)) => {
                if n <= m {
                    return Err(Viol::new("C15:limit-too-strict", format!("program needs {n} cycles but a limit of {m} was reported as exceeded"), cj()));
                }
                if x != m {
                    return Err(Viol::new("C15:limit-error-value", format!("error reports limit {x}, configured {m}"), cj()));
                }
            }
            Err(e) => return Err(Viol::new("C15:limit-other-error", format!("unexpected error under limit {m}: {e}"), cj())),
        }
        if (m as i64 - n as i64).abs() <= 3 {
            near += 1;
        }
    }
    Ok(Info {
        nontrivial: if near >= 3 { Some(fp_str(&format!("{}|{}", n, g.case.src.len()))) } else { None },
        classes: vec![format!("cycles~2^{}", 32 - n.leading_zeros()), format!("near-limits={}", near)],
        sample: Some(json!({"src": g.case.src, "cycles": n, "limits": limits})),
        evals: limits.len() as u64,
        ..Info::default()
    })
}

/// a loop body that never fails and never terminates the loop
fn endless_body(ch: &mut Ch, depth: usize) -> String {
    let mut s = String::new();
    let k = 1 + ch.pick(6);
    let mut extra = 0i32; // items pushed by this body and not yet dropped
    for _ in 0..k {
        match ch.pick(12) {
            0 => {
                s.push_str(&format!("push.{} ", ch.felt()));
                extra += 1;
            }
            1 if extra > 0 => {
                s.push_str("drop ");
                extra -= 1;
            }
            2 => {
                s.push_str(&format!("dup.{} ", ch.pick(16)));
                extra += 1;
            }
            3 => s.push_str(&format!("swap.{} ", 1 + ch.pick(15))),
            4 => s.push_str("add.1 "),
            // (a decorator needs an operation in its span: see the decorator-only-span finding)
            5 => s.push_str(&format!("swap emit.{} ", ch.next())),
            6 => s.push_str(&format!("swap trace.{} ", ch.next())),
            7 => {
                s.push_str(&format!("push.{} mem_store.{} ", ch.felt(), ch.pick(5)));
            }
            8 => {
                s.push_str(&format!("mem_load.{} ", ch.pick(5)));
                extra += 1;
            }
            9 if depth < 2 => {
                let c = ch.pick(2);
                s.push_str(&format!("push.{} if.true {} else {} end ", c, endless_body(ch, depth + 1), endless_body(ch, depth + 1)));
            }
            10 if depth < 2 => {
                s.push_str(&format!("repeat.{} {} end ", 1 + ch.pick(4), endless_body(ch, depth + 1)));
            }
            11 if depth < 1 => {
                // nested endless loop
                s.push_str(&format!("push.1 while.true {} push.1 end ", endless_body(ch, depth + 1)));
            }
            _ => s.push_str("neg "),
        }
    }
    if ch.chance(1, 2) {
        while extra > 0 {
            s.push_str("drop ");
            extra -= 1;
        }
    }
    s
}

pub fn check_endless(choices: &Vec<u16>) -> Out {
    let mut ch = Ch::new(choices);
    let m = 64 + ch.pick((1 << 16) - 64) as u32;
    let pre = if ch.chance(1, 2) { format!("push.{} ", ch.felt()) } else { String::new() };
    let src = format!("begin {}push.1 while.true {} push.1 end end", pre, endless_body(&mut ch, 0));
    let case = Case { src, ..Case::default() };
    let cj = || json!({"case": case.to_json(), "limit": m});
    let program = match vm::assemble(&case, false) {
        Assembled::Ok(p) => p,
        Assembled::Err(e) => return Err(Viol::new("C15:endless-asm", format!("generated endless loop does not assemble: {e}"), cj())),
        Assembled::Panic(p) => return Err(Viol::new("C15:asm-panic", p, cj())),
    };
    // watchdog: a limit of at most 2^16 cycles finishes in milliseconds
    let (tx, rx) = std::sync::mpsc::channel();
    let (p2, c2) = (program.clone(), case.clone());
    std::thread::spawn(move || {
        let _ = tx.send(run_limited(&p2, &c2, m));
    });
    let res = match rx.recv_timeout(std::time::Duration::from_secs(60)) {
        Ok(r) => r,
        Err(_) => return Err(Viol::new("C15:endless-not-stopped", format!("execution with a limit of {m} cycles did not return within 60 s"), cj())),
    };
    let (res, log) = res.map_err(|e| Viol::new("C15:limit-run", e, cj()))?;
    if let Some(ev) = log.events.iter().find(|e| e.2 > m) {
        return Err(Viol::new("C15:ran-past-limit", format!("host callback at clk {} with limit {m}", ev.2), cj()));
    }
    match res {
        Err(ExecutionError::CycleLimitExceeded(x)) if x == m => Ok(Info {
            nontrivial: Some(fp_str(&case.src) ^ m as u64),
            classes: vec!["endless".into(), format!("callbacks={}", (log.events.len() > 0) as u8)],
            sample: Some(json!({"src": case.src, "limit": m, "host_callbacks": log.events.len()})),
            ..Info::default()
        }),
        Err(e) => Err(Viol::new("C15:endless-other-error", format!("non-terminating program stopped with {e} instead of the cycle-limit error for {m}"), cj())),
        Ok(_) => Err(Viol::new("C15:limit-not-enforced", "non-terminating program reported success", cj())),
    }
}

pub fn check_options(ctx: &Ctx) {
    let vals: Vec<u32> = vec![0, 1, 63, 64, 65, 100, 127, 128, 129, 1000, 1 << 16, (1 << 16) + 1, u32::MAX - 1, u32::MAX];
    // expected-cycle values above 2^31 have no u32 power of two to be rounded to (and any value
    // near that size is an allocation request of many GiB); the property is about the relation of
    // the maximum to the minimum trace length and to the expected cycles, enumerated up to 2^16+1
    let exps: Vec<u32> = vals.iter().copied().filter(|v| *v <= (1 << 16) + 1).collect();
    let mut items = vec![];
    for &mx in &vals {
        for &ex in &exps {
            items.push((Some(mx), ex));
        }
    }
    for &ex in &exps {
        items.push((None, ex));
    }
    ctx.run_list("options", &items, |&(mx, ex)| {
        let cj = json!({"max_cycles": mx, "expected_cycles": ex});
        let eff = mx.unwrap_or(u32::MAX);
        let must_refuse = eff < 64 || eff < ex;
        let r = vm::catch(|| ExecutionOptions::new(mx, ex, false));
        match r {
            Err(p) => Err(Viol::new("C15:options-panic", p, cj)),
            Ok(Ok(o)) => {
                if must_refuse {
                    return Err(Viol::new("C15:options-accepted", format!("max_cycles {:?} / expected {} accepted", mx, ex), cj));
                }
                if o.max_cycles() != eff {
                    return Err(Viol::new("C15:options-max", format!("max_cycles reported {}", o.max_cycles()), cj));
                }
                let e = o.expected_cycles();
                if !e.is_power_of_two() || e < 64 || e < ex {
                    return Err(Viol::new("C15:options-expected", format!("expected cycles {} exposed as {}", ex, e), cj));
                }
                Ok(Info { nontrivial: Some(fp_str(&format!("{:?}{}", mx, ex))), classes: vec!["options-accepted".into()], ..Info::default() })
            }
            Ok(Err(_)) => {
                if !must_refuse {
                    return Err(Viol::new("C15:options-refused", format!("valid max_cycles {:?} / expected {} refused", mx, ex), cj));
                }
                Ok(Info { nontrivial: Some(fp_str(&format!("{:?}{}", mx, ex))), classes: vec!["options-refused".into()], ..Info::default() })
            }
        }
    });
}

/// the limit also applies when proving
pub fn check_prove_limit(ctx: &Ctx) {
    let items: Vec<(u32, i64)> = vec![(30, -1), (30, 0), (30, 1), (200, -1), (200, 0)];
    ctx.run_list("prove-limit", &items, |&(reps, delta)| {
        let src = format!("begin repeat.{reps} push.1 drop end end");
        let case = Case { src, ..Case::default() };
        let Assembled::Ok(program) = vm::assemble(&case, false) else { return Err(Viol::new("C15:prove-asm", "cannot assemble", json!({}))) };
        let Ran::Ok(t, _) = vm::run(&program, &case, ExecutionOptions::default()) else { return Err(Viol::new("C15:prove-run", "cannot run", json!({}))) };
        let n = t.trace_len_summary().main_trace_len() as i64;
        let m = (n + delta) as u32;
        let cj = json!({"case": case.to_json(), "limit": m, "cycles": n});
        let opts = air::ProvingOptions::default().with_execution_options(ExecutionOptions::new(Some(m), 64, false).unwrap());
        let r = vm::catch(|| prover::prove(&program, case.stack_inputs(), case.host(), opts));
        match r {
            Err(p) => Err(Viol::new("C15:prove-panic", p, cj)),
            Ok(Ok(_)) if n > m as i64 => Err(Viol::new("C15:limit-not-enforced", "prove succeeded beyond the cycle limit", cj)),
            Ok(Err(ExecutionError::CycleLimitExceeded(_))) if n <= m as i64 => Err(Viol::new("C15:limit-too-strict", "prove reports the limit exceeded", cj)),
            Ok(Err(e)) if n <= m as i64 => Err(Viol::new("C15:prove-other-error", format!("{e}"), cj)),
            _ => Ok(Info { nontrivial: Some(fp_str(&format!("{reps}{delta}"))), classes: vec!["prove-limit".into()], ..Info::default() }),
        }
    });
}

/// small programs swept with every limit from 64 to a little beyond their cycle count: spans of
/// one to three batches with host events placed around the batch boundaries (RESPAN rows), loops,
/// calls. For each limit: Ok exactly when the program fits, the error carries the limit, and the
/// host sees no callback later than the limit.
pub fn check_every_limit(ctx: &Ctx) {
    let mut srcs: Vec<String> = vec![];
    for k in [62usize, 70, 71, 72, 73, 80, 143, 144, 145] {
        srcs.push(format!("begin repeat.{k} add end emit.7 add emit.8 add end"));
        srcs.push(format!("begin repeat.{k} add end trace.3 push.5 emit.9 drop end"));
    }
    srcs.push("begin repeat.30 push.1 emit.1 drop end end".into());
    srcs.push("proc.f repeat.20 add end push.0 emit.5 drop end begin repeat.3 call.f end push.0 emit.6 drop end".into());
    srcs.push("begin push.20 dup neq.0 while.true emit.2 sub.1 dup neq.0 end push.0 emit.3 drop end".into());
    ctx.run_list("every-limit", &srcs, |src| {
        let case = Case { src: src.clone(), ..Case::default() };
        let program = match vm::assemble(&case, false) {
            vm::Assembled::Ok(p) => p,
            _ => return Err(Viol::new("C15:setup", "fixed program does not assemble", json!({"src": src}))),
        };
        let (res0, log0) = run_limited(&program, &case, u32::MAX).map_err(|e| Viol::new("C15:limit-run", e, json!({"src": src})))?;
        let outs = res0.map_err(|e| Viol::new("C15:setup", format!("fixed program fails: {e}"), json!({"src": src})))?;
        // the number of cycles: the smallest limit under which the program succeeds
        let mut n = 0u32;
        let mut evals = 0u64;
        let upper = 64 + 4 * src.len() as u32 + 2000;
        for m in 64..upper {
            let cj = || json!({"case": case.to_json(), "limit": m});
            let (res, log) = run_limited(&program, &case, m).map_err(|e| Viol::new("C15:limit-run", e, cj()))?;
            evals += 1;
            if let Some(ev) = log.events.iter().find(|e| e.2 > m) {
                return Err(Viol::new("C15:ran-past-limit", format!("host callback at clk {} with limit {m}", ev.2), cj()));
            }
            match res {
                Ok(o) => {
                    if o != outs {
                        return Err(Viol::new("C15:limit-changes-result", format!("outputs differ under limit {m}"), cj()));
                    }
                    if log.events.len() != log0.events.len() {
                        return Err(Viol::new("C15:limit-changes-result", format!("host callbacks differ under limit {m}"), cj()));
                    }
                    if n == 0 {
                        n = m;
                    }
                    if m > n + 3 {
                        break;
                    }
                }
                Err(ExecutionError::CycleLimitExceeded(x)) => {
                    if n != 0 {
                        return Err(Viol::new("C15:limit-not-monotone", format!("succeeds with limit {n} but not with {m}"), cj()));
                    }
                    if x != m {
                        return Err(Viol::new("C15:limit-error-value", format!("error reports limit {x}, configured {m}"), cj()));
                    }
                    // callbacks seen so far are a prefix of the unlimited run's
                    if log.events.iter().zip(log0.events.iter()).any(|(a, b)| a != b) {
                        return Err(Viol::new("C15:limit-changes-result", format!("host callbacks before the limit {m} differ from the unlimited run"), cj()));
                    }
                }
                Err(e) => return Err(Viol::new("C15:limit-other-error", format!("unexpected error under limit {m}: {e}"), cj())),
            }
        }
        if n == 0 {
            return Err(Viol::new("C15:setup", "no limit found under which the fixed program succeeds", json!({"src": src})));
        }
        Ok(Info { nontrivial: Some(fp_str(src)), classes: vec!["every-limit".into()], evals, sample: Some(json!({"src": src, "cycles": n})), ..Info::default() })
    });
}

pub fn run(ctx: &Ctx) {
    check_every_limit(ctx);
    ctx.set_rule("terminating programs from the full generator run with limits N-3..N+3, 64, N/2, 2N, N+1000, u32::MAX (N = cycles of the unlimited run): Ok iff N <= limit, same outputs, error carries the limit, no host callback beyond the limit; generated non-terminating loops (nested, growing stack/memory, events each iteration) must stop with the cycle-limit error (watchdog 60 s); the option constructor is enumerated around its validity boundaries; non-trivial = a limit within 3 of N or a non-terminating program; distinct by (N, program) resp. (program, limit)");
    check_options(ctx);
    check_prove_limit(ctx);
    ctx.run("terminating", ctx.n(2500, 200_000), || vec(any::<u16>(), 30..500), check_terminating);
    ctx.run("endless", ctx.n(1500, 100_000), || vec(any::<u16>(), 10..120), check_endless);
}

pub fn replay(ctx: &Ctx, v: &serde_json::Value) {
    let c = &v["case"];
    if c.get("case").is_none() {
        check_options(ctx);
        return;
    }
    let case = Case::from_json(&c["case"]);
    let m = c["limit"].as_u64().unwrap_or(64) as u32;
    let out = (|| -> Out {
        let Assembled::Ok(program) = vm::assemble(&case, false) else { return Ok(Info::default()) };
        let n = match vm::run(&program, &case, ExecutionOptions::new(Some(1 << 22), 64, false).unwrap()) {
            Ran::Ok(t, _) => Some(t.trace_len_summary().main_trace_len() as u32),
            _ => None,
        };
        let (res, log) = run_limited(&program, &case, m).map_err(|e| Viol::new("C15:limit-run", e, c.clone()))?;
        if log.events.iter().any(|e| e.2 > m) {
            return Err(Viol::new("C15:ran-past-limit", "host callback beyond the limit", c.clone()));
        }
        match (res, n) {
            (Ok(_), Some(n)) if n > m => Err(Viol::new("C15:limit-not-enforced", "succeeded beyond the limit", c.clone())),
            (Ok(_), None) => Err(Viol::new("C15:limit-not-enforced", "non-terminating program succeeded", c.clone())),
            (Err(ExecutionError::CycleLimitExceeded(_)), Some(n)) if n <= m => Err(Viol::new("C15:limit-too-strict", "limit reported exceeded", c.clone())),
            (Err(ExecutionError::CycleLimitExceeded(x)), _) if x != m => Err(Viol::new("C15:limit-error-value", "wrong limit in error", c.clone())),
            _ => Ok(Info::default()),
        }
    })();
    ctx.record("replay", out);
}
