//! C11 — assembly is deterministic, history-independent and self-contained; invalid programs are
//! rejected with an error.

use crate::engine::{fp_str, Ctx, Info, Out, Viol};
use crate::gen::Ch;
use crate::vm;
use assembly::{Assembler, MaslLibrary};
use processor::{ExecutionError, ExecutionOptions};
use proptest::collection::vec;
use proptest::prelude::*;
use serde_json::json;
use vm_core::code_blocks::CodeBlock;

// ---- invalid sources ---------------------------------------------------------------------------------

/// (class, source, kernel?) — each must be rejected with an error
pub fn invalid_sources() -> Vec<(&'static str, String, Option<&'static str>)> {
    let mut v: Vec<(&'static str, String, Option<&'static str>)> = vec![];
    let p = |s: &str| format!("begin {s} end");
    // undefined procedures
    v.push(("undefined-local-proc", p("exec.foo"), None));
    v.push(("undefined-local-proc", p("call.foo"), None));
    v.push(("undefined-local-proc", p("procref.foo"), None));
    v.push(("undefined-local-proc", "proc.a exec.b end proc.b push.1 drop end begin exec.a end".into(), None));
    v.push(("undefined-local-proc", "proc.a exec.a end begin exec.a end".into(), None));
    v.push(("undefined-imported-proc", "use.std::math::u64\nbegin exec.u64::no_such_proc end".into(), None));
    v.push(("undefined-imported-proc", "use.std::math::u64\nbegin call.u64::no_such_proc end".into(), None));
    v.push(("undefined-imported-proc", "use.std::math::u64\nbegin procref.u64::no_such_proc end".into(), None));
    v.push(("undefined-module", "begin exec.nomod::foo end".into(), None));
    // an import whose path has a single component (no `::`)
    v.push(("undefined-module", "use.nomod\nbegin exec.nomod::foo end".into(), None));
    v.push(("undefined-module", "use.nomod->m\nbegin call.m::foo end".into(), None));
    v.push(("undefined-module", "use.std::no::such::module\nbegin exec.module::foo end".into(), None));
    v.push(("undefined-syscall", p("syscall.foo"), None));
    v.push(("undefined-syscall", p("syscall.nokernelproc"), Some("export.k0 push.1 drop end")));
    // out-of-range parameters (documented ranges)
    for (ins, bad) in [
        ("dup", vec!["16", "17", "255", "65536"]),
        ("dupw", vec!["4", "5", "16"]),
        ("swap", vec!["0", "16", "100"]),
        ("swapw", vec!["0", "4", "5"]),
        ("movup", vec!["0", "1", "16", "17"]),
        ("movdn", vec!["0", "1", "16", "17"]),
        ("movupw", vec!["0", "1", "4"]),
        ("movdnw", vec!["0", "1", "4"]),
        ("adv_push", vec!["0", "17", "256"]),
        ("exp.u", vec!["65", "66", "255", "256"]),
        ("u32wrapping_add", vec!["4294967296", "18446744073709551615"]),
        ("u32overflowing_sub", vec!["4294967296"]),
        ("u32wrapping_mul", vec!["4294967297"]),
        ("mem_load", vec!["4294967296", "18446744069414584320"]),
        ("mem_storew", vec!["4294967296"]),
        ("assert.err=", vec!["4294967296", "18446744073709551615"]),
        ("u32assert.err=", vec!["4294967296"]),
        ("add", vec!["18446744069414584321", "18446744073709551615", "18446744073709551616"]),
        ("push", vec!["18446744069414584321", "18446744073709551616", "0x1", "0xffffffff00000001", "1.2.3.4.5.6.7.8.9.10.11.12.13.14.15.16.17"]),
        ("emit", vec!["4294967296"]),
        ("repeat", vec![]),
    ] {
        for b in bad {
            let tok = if ins.ends_with('=') || ins.ends_with(".u") { format!("{ins}{b}") } else { format!("{ins}.{b}") };
            v.push(("parameter-out-of-range", p(&tok), None));
        }
    }
    v.push(("parameter-out-of-range", "begin repeat.0 push.1 end end".into(), None));
    // local index
    for (n, i) in [(1, 1), (2, 2), (2, 65535), (5, 5)] {
        for ins in ["loc_load", "loc_loadw", "loc_store", "loc_storew", "locaddr"] {
            v.push(("local-index-out-of-range", format!("proc.f.{n} {ins}.{i} end begin exec.f end"), None));
        }
    }
    for ins in ["loc_load", "loc_loadw", "loc_store", "loc_storew", "locaddr"] {
        v.push(("local-access-without-locals", format!("proc.f {ins}.0 end begin exec.f end"), None));
        v.push(("local-access-without-locals", format!("proc.f.0 {ins}.0 end begin exec.f end"), None));
        v.push(("local-access-in-main", format!("begin {ins}.0 end"), None));
    }
    // forbidden where used
    v.push(("caller-outside-kernel", p("caller"), None));
    v.push(("caller-outside-kernel", "proc.f caller end begin call.f end".into(), None));
    v.push(("export-in-program", "export.f push.1 drop end begin exec.f end".into(), None));
    // division by a zero immediate
    for ins in ["div", "u32div", "u32mod", "u32divmod"] {
        v.push(("division-by-zero-immediate", p(&format!("{ins}.0")), None));
    }
    v
}

/// invalid kernels: call / syscall inside a kernel
/// sources that are malformed in ways the property does not enumerate: the only demand is that
/// the assembler answers (an error, or a program) and does not panic
pub fn must_not_panic_sources() -> Vec<(&'static str, String)> {
    let mut v = vec![];
    for e in [
        "*2", "2+", "2*", "+", "(2", "2)", "()", "2**3", "2+*3", "(2+)*3", "-", "2 3", "A+1", "1+(", "/1", "7(0", "2(3)", "(2)(3)", "2//", "//2", "1/0", "1//0", "4S\u{57c}ONST*2", "\u{e9}", "2+\u{1F600}", "((((1",
        "1))))", "18446744073709551616", "99999999999999999999999", "0x10", "1e3", "1_000", " 1", "1 ",
    ] {
        v.push(("malformed-constant", format!("const.A={e}\nbegin push.A end")));
        v.push(("malformed-constant", format!("const.B=7\nconst.A={e}+B\nbegin push.A end")));
    }
    for n in ["a", "A b", "1A", "A-", "", "A=1=2"] {
        v.push(("malformed-constant-name", format!("const.{n}=3\nbegin push.1 end")));
    }
    // header keywords with their pieces missing, alone and in front of a body
    for k in [
        "export", "export.", "export.a.", "export.a.b.c", "export.1", "export.a::", "export.::a", "export.a::b->", "export.a::b->1", "proc", "proc.", "proc.a.", "proc.a.x", "proc.a.70000", "proc.a.1.2", "use", "use.", "use.a::",
        "use.::a", "use.a->", "use.a::b->", "use.a::b->1x", "const", "const.", "const.A", "const.A=", "begin", "begin.", "begin.1", "end", "else", "if", "if.", "if.false", "while", "while.", "while.false", "repeat", "repeat.", "repeat.x",
        "repeat.4294967296", "#!", "#! doc", "#",
    ] {
        v.push(("bare-keyword", k.to_string()));
        v.push(("bare-keyword", format!("{k}\n    and and and\nend\n")));
        v.push(("bare-keyword", format!("{k}\nbegin push.1 end\n")));
        v.push(("bare-keyword", format!("begin {k} push.1 end end\n")));
    }
    v
}

pub fn invalid_kernels() -> Vec<(&'static str, String)> {
    vec![
        ("call-in-kernel", "proc.a push.1 drop end export.k0 call.a end".into()),
        ("call-in-kernel", "export.k0 push.1 drop end export.k1 call.k0 end".into()),
        ("syscall-in-kernel", "export.k0 push.1 drop end export.k1 syscall.k0 end".into()),
        ("dyncall-in-kernel", "export.k0 push.1 drop end export.k1 procref.k0 dyncall end".into()),
    ]
}

pub fn check_invalid(ctx: &Ctx) {
    let items = invalid_sources();
    ctx.run_list("invalid-sources", &items, |(class, src, kernel)| {
        let cj = json!({"class": class, "src": src, "kernel": kernel});
        let r = vm::catch(|| {
            let mut a = Assembler::default().with_library(&stdlib::StdLibrary::default()).map_err(|e| format!("{e}"))?;
            if let Some(k) = kernel {
                a = a.with_kernel(k).map_err(|e| format!("kernel: {e}"))?;
            }
            a.compile(src).map(|_| ()).map_err(|e| format!("{e}"))
        });
        match r {
            Err(p) => {
                if std::env::var("VERIF_DEBUG").is_ok() {
                    eprintln!("PANICS {class}: {src}: {p}");
                    return Ok(Info::default());
                }
                Err(Viol::new(format!("C11:invalid-panics:{class}:{}", crate::diff::panic_site(&p)), format!("invalid source makes the assembler panic: {p}"), cj))
            }
            Ok(Ok(())) => {
                if std::env::var("VERIF_DEBUG").is_ok() {
                    eprintln!("ACCEPTED {class}: {src}");
                    return Ok(Info::default());
                }
                // the instruction the class is about: the last instruction of the last body
                let tok = src.trim_end_matches("end").trim().rsplit(' ').find(|t| *t != "end" && !t.is_empty()).unwrap_or("").split(|c| c == '.' || c == '=').next().unwrap_or("").to_string();
                Err(Viol::new(format!("C11:invalid-accepted:{class}:{tok}"), format!("invalid source is assembled without an error: {src}"), cj))
            }
            Ok(Err(e)) if e.starts_with("kernel:") => Err(Viol::new("C11:setup", e, cj)),
            Ok(Err(_)) => Ok(Info { nontrivial: Some(fp_str(src)), classes: vec![format!("invalid:{class}")], sample: Some(cj), ..Info::default() }),
        }
    });
    let np = must_not_panic_sources();
    ctx.run_list("must-not-panic", &np, |(class, src)| {
        let cj = json!({"class": class, "src": src});
        // as a program and as a library module
        let as_module = vm::catch(|| assembly::ast::ModuleAst::parse(src).map(|_| ()).map_err(|e| format!("{e}")));
        if let Err(p) = as_module {
            return Err(Viol::new(format!("C11:invalid-panics:{class}:{}", crate::diff::panic_site(&p)), format!("malformed module source makes the parser panic: {p}"), cj));
        }
        match vm::catch(|| Assembler::default().compile(src).map(|_| ()).map_err(|e| format!("{e}"))) {
            Err(p) => Err(Viol::new(format!("C11:invalid-panics:{class}:{}", crate::diff::panic_site(&p)), format!("malformed source makes the assembler panic: {p}"), cj)),
            Ok(r) => Ok(Info { nontrivial: Some(fp_str(src)), classes: vec![format!("{class}:{}", if r.is_ok() { "accepted" } else { "rejected" })], ..Info::default() }),
        }
    });
    let ks = invalid_kernels();
    ctx.run_list("invalid-kernels", &ks, |(class, src)| {
        let cj = json!({"class": class, "kernel_src": src});
        let r = vm::catch(|| Assembler::default().with_kernel(src).map(|_| ()).map_err(|e| format!("{e}")));
        match r {
            Err(p) => Err(Viol::new(format!("C11:invalid-panics:{class}:{}", crate::diff::panic_site(&p)), p, cj)),
            Ok(Ok(())) => Err(Viol::new(format!("C11:invalid-accepted:{class}"), format!("invalid kernel accepted: {src}"), cj)),
            Ok(Err(_)) => Ok(Info { nontrivial: Some(fp_str(src)), classes: vec![format!("invalid:{class}")], ..Info::default() }),
        }
    });
}

/// valid sources with decorators in every position must assemble (no panic), with or without them
pub fn check_decorator_positions(ctx: &Ctx) {
    let shapes: Vec<String> = vec![
        "proc.f push.1 drop end begin call.f {D} call.f end".into(),
        "proc.f push.1 drop end begin call.f {D} end".into(),
        "begin push.1 if.true push.2 drop end {D} push.1 if.true push.3 drop end end".into(),
        "begin push.0 while.true push.0 end {D} end".into(),
        "begin push.1 if.true {D} push.0 while.true push.0 end end end".into(),
        "proc.f push.1 drop end begin {D} call.f end".into(),
        "begin repeat.2 {D} push.1 drop end end".into(),
        "begin push.1 drop {D} end".into(),
    ];
    let decs = ["emit.1", "trace.2", "debug.stack", "adv.push_mapval"];
    let mut items = vec![];
    for s in &shapes {
        for d in decs {
            items.push((s.clone(), d));
        }
    }
    ctx.run_list("decorator-positions", &items, |(shape, d)| {
        let src = shape.replace("{D}", d);
        let cj = json!({"src": src});
        match vm::catch(|| Assembler::default().compile(&src).map(|p| p.hash()).map_err(|e| format!("{e}"))) {
            Err(p) => Err(Viol::new(format!("C11:valid-source-panics:{}", crate::diff::panic_site(&p)), format!("a valid source makes the assembler panic: {p}"), cj)),
            Ok(Err(e)) => Err(Viol::new("C11:valid-source-rejected", e, cj)),
            Ok(Ok(_)) => Ok(Info { nontrivial: Some(fp_str(&src)), classes: vec!["decorator-position-ok".into()], ..Info::default() }),
        }
    });
}

// ---- universe of libraries -----------------------------------------------------------------------------

struct Universe {
    libs: Vec<(String, Vec<(String, String)>)>, // (namespace, [(module path, source)])
    /// fully qualified exported procedures: (import statement path, module alias, proc name)
    exports: Vec<(String, String, String)>,
    /// pairs (direct, via re-export) naming the same procedure
    aliases: Vec<((String, String, String), (String, String, String))>,
    kernel: Option<String>,
    /// what executing an exported procedure adds to the accumulator on top of the stack:
    /// "module path::name" -> sum of the constants of every body executed through exec / call
    sums: std::collections::BTreeMap<String, u64>,
}

fn body(ch: &mut Ch, salt: u64) -> String {
    // depth-neutral, never failing, distinct per salt
    // the first two instructions add the procedure's own constant to the accumulator on top of the
    // stack; the rest leaves it alone
    let mut s = format!("push.{} add ", 1000 + salt);
    for _ in 0..ch.pick(4) {
        s.push_str(["swap swap ", "neg neg ", "push.1 mul ", "push.7 drop ", "dup drop "][ch.pick(5)]);
    }
    s
}

fn universe(ch: &mut Ch) -> Universe {
    let mut u = Universe { libs: vec![], exports: vec![], aliases: vec![], kernel: None, sums: Default::default() };
    let mut salt = 0u64;
    // library la: m0 (base), m1 (uses m0, re-exports)
    let n0 = 1 + ch.pick(3);
    let mut m0 = String::new();
    // a chain of non-exported procedures reached through exec / call / procref at every level
    // returns the text and whether the target is executed (procref only pushes its hash)
    let inv = |ch: &mut Ch, target: &str| -> (String, bool) {
        match ch.pick(3) {
            0 => (format!("exec.{target} "), true),
            1 => (format!("call.{target} "), true),
            _ => (format!("procref.{target} dropw "), false),
        }
    };
    // the hidden chain adds 300 + 20 + 1 when all three levels are executed
    let (t3, e3) = inv(ch, "hidden3");
    let (t2, e2) = inv(ch, "hidden2");
    m0.push_str("proc.hidden3 push.1 add end\n");
    m0.push_str(&format!("proc.hidden2 push.20 add {}end\n", t3));
    m0.push_str(&format!("proc.hidden push.300 add {}end\n", t2));
    let hidden2_sum = 20 + if e3 { 1 } else { 0 };
    let hidden_sum = 300 + if e2 { hidden2_sum } else { 0 };
    for i in 0..n0 {
        salt += 1;
        let loc = if ch.chance(1, 3) { ".2" } else { "" };
        let extra = if loc.is_empty() { String::new() } else { "push.1.2.3.4 loc_storew.1 dropw ".to_string() };
        let mut own = 1000 + salt;
        let callee = if i > 0 && ch.chance(1, 2) {
            let j = ch.pick(i);
            let (t, ex) = inv(ch, &format!("p{j}"));
            if ex {
                own += u.sums[&format!("la::m0::p{j}")];
            }
            t
        } else if ch.chance(1, 2) {
            let (t, ex) = inv(ch, "hidden");
            if ex {
                own += hidden_sum;
            }
            t
        } else {
            String::new()
        };
        m0.push_str(&format!("export.p{i}{loc}\n {}{}{}\nend\n", extra, body(ch, salt), callee));
        u.sums.insert(format!("la::m0::p{i}"), own);
        u.exports.push(("la::m0".into(), "m0".into(), format!("p{i}")));
    }
    let mut m1 = String::from("use.la::m0\n");
    let re = ch.pick(n0);
    m1.push_str(&format!("export.m0::p{re}->rp\n"));
    u.aliases.push((("la::m0".into(), "m0".into(), format!("p{re}")), ("la::m1".into(), "m1".into(), "rp".into())));
    u.exports.push(("la::m1".into(), "m1".into(), "rp".into()));
    u.sums.insert("la::m1::rp".into(), u.sums[&format!("la::m0::p{re}")]);
    let n1 = 1 + ch.pick(3);
    for i in 0..n1 {
        salt += 1;
        let kind = ["exec", "call", "procref"][ch.pick(3)];
        let tgt = ch.pick(n0);
        let tail = if kind == "procref" { "dropw " } else { "" };
        let mut own = 1000 + salt + if kind == "procref" { 0 } else { u.sums[&format!("la::m0::p{tgt}")] };
        // local procedures of a module that starts with a re-export also invoke each other
        let local = if i > 0 && ch.chance(1, 2) {
            let j = ch.pick(i);
            own += u.sums[&format!("la::m1::q{j}")];
            format!("exec.q{j} ")
        } else {
            String::new()
        };
        m1.push_str(&format!("export.q{i}\n {} {kind}.m0::p{tgt} {tail}{local}\nend\n", body(ch, salt)));
        u.sums.insert(format!("la::m1::q{i}"), own);
        u.exports.push(("la::m1".into(), "m1".into(), format!("q{i}")));
    }
    u.libs.push(("la".into(), vec![("la::m0".into(), m0), ("la::m1".into(), m1)]));
    // library lb: depends on la, re-export of a re-export
    if ch.chance(2, 3) {
        let mut n = String::from("use.la::m1\nuse.la::m0->base\n");
        n.push_str("export.m1::rp->rrp\n");
        u.aliases.push((u.aliases[0].0.clone(), ("lb::n0".into(), "n0".into(), "rrp".into())));
        u.exports.push(("lb::n0".into(), "n0".into(), "rrp".into()));
        u.sums.insert("lb::n0::rrp".into(), u.sums["la::m1::rp"]);
        let k = 1 + ch.pick(2);
        for i in 0..k {
            salt += 1;
            let (qi, pi) = (ch.pick(n1), ch.pick(n0));
            n.push_str(&format!("export.r{i}\n {} exec.m1::q{} call.base::p{}\nend\n", body(ch, salt), qi, pi));
            u.sums.insert(format!("lb::n0::r{i}"), 1000 + salt + u.sums[&format!("la::m1::q{qi}")] + u.sums[&format!("la::m0::p{pi}")]);
            u.exports.push(("lb::n0".into(), "n0".into(), format!("r{i}")));
        }
        u.libs.push(("lb".into(), vec![("lb::n0".into(), n)]));
    }
    if ch.chance(1, 2) {
        u.kernel = Some("export.k0 push.11 drop end\nexport.k1 push.12 drop end\n".into());
    }
    u
}

fn program_src(ch: &mut Ch, u: &Universe, salt: u64, variant_alias: Option<bool>) -> String {
    program_src_sum(ch, u, salt, variant_alias).0
}

/// the program and what it leaves in the accumulator on top of the stack (starting from 0): the
/// sum of the constants of every procedure body executed through exec / call (dynexec / dyncall run
/// their target on top of the pushed hash, which is dropped afterwards; syscalls add nothing)
fn program_src_sum(ch: &mut Ch, u: &Universe, salt: u64, variant_alias: Option<bool>) -> (String, u64) {
    let mut expected = 0u64;
    let mut imports: Vec<(String, String)> = vec![];
    let mut main = String::new();
    let mut procs = String::new();
    let nl = ch.pick(3);
    let mut local_sum = vec![];
    for i in 0..nl {
        procs.push_str(&format!("proc.l{i}\n {}\nend\n", body(ch, salt * 100 + i as u64)));
        local_sum.push(1000 + salt * 100 + i as u64);
    }
    let steps = 1 + ch.pick(7);
    for _ in 0..steps {
        let kind = ["exec", "call", "procref-dynexec", "procref-dyncall", "syscall"][ch.pick(5)];
        if kind == "syscall" {
            if u.kernel.is_some() {
                main.push_str(&format!("syscall.k{} ", ch.pick(2)));
            }
            continue;
        }
        let use_local = nl > 0 && ch.chance(1, 3);
        let mut target_sum = 0u64;
        let target = if use_local {
            let li = ch.pick(nl);
            target_sum = local_sum[li];
            format!("l{}", li)
        } else {
            let (path, alias, name) = match (variant_alias, u.aliases.first()) {
                // the variant pair: the same procedure once directly, once through its re-export
                (Some(via), Some((d, r))) if ch.chance(1, 2) => {
                    if via {
                        r.clone()
                    } else {
                        d.clone()
                    }
                }
                _ => u.exports[ch.pick(u.exports.len())].clone(),
            };
            if !imports.iter().any(|(p, _)| *p == path) {
                imports.push((path.clone(), alias.clone()));
            }
            target_sum = u.sums.get(&format!("{path}::{name}")).copied().unwrap_or(0);
            format!("{alias}::{name}")
        };
        if matches!(kind, "exec" | "call") {
            expected += target_sum;
        }
        match kind {
            "exec" => main.push_str(&format!("exec.{target} ")),
            "call" => main.push_str(&format!("call.{target} ")),
            "procref-dynexec" => main.push_str(&format!("procref.{target} dynexec dropw ")),
            _ => main.push_str(&format!("procref.{target} dyncall dropw ")),
        }
    }
    if main.is_empty() {
        main.push_str("push.1 drop ");
    }
    let mut s = String::new();
    for (p, _) in &imports {
        s.push_str(&format!("use.{p}\n"));
    }
    s.push_str(&procs);
    s.push_str(&format!("begin\n {main}\nend\n"));
    (s, expected)
}

fn build_libs(u: &Universe) -> Result<Vec<MaslLibrary>, String> {
    u.libs.iter().map(|(ns, mods)| vm::build_library(ns, mods)).collect()
}

fn fresh(u: &Universe, libs: &[MaslLibrary], order_rev: bool) -> Result<Assembler, String> {
    let mut a = Assembler::default();
    let idx: Vec<usize> = if order_rev { (0..libs.len()).rev().collect() } else { (0..libs.len()).collect() };
    for i in idx {
        a = a.with_library(&libs[i]).map_err(|e| format!("{e}"))?;
    }
    if let Some(k) = &u.kernel {
        a = a.with_kernel(k).map_err(|e| format!("{e}"))?;
    }
    Ok(a)
}

/// what a compilation result looks like from outside
fn summary(r: &Result<vm_core::Program, String>) -> String {
    match r {
        Err(_) => "error".into(),
        Ok(p) => {
            let mut targets = vec![];
            collect(p.root(), p.cb_table(), &mut targets, 0);
            targets.sort();
            targets.dedup();
            format!("{:?}|{:?}|{:?}", p.hash(), p.kernel().proc_hashes(), targets)
        }
    }
}

/// every call target reachable from `b` with the hash of its body in the table (or "missing")
fn collect(b: &CodeBlock, t: &vm_core::CodeBlockTable, out: &mut Vec<String>, depth: usize) {
    if depth > 100 {
        return;
    }
    match b {
        CodeBlock::Join(j) => {
            collect(j.first(), t, out, depth + 1);
            collect(j.second(), t, out, depth + 1);
        }
        CodeBlock::Split(s) => {
            collect(s.on_true(), t, out, depth + 1);
            collect(s.on_false(), t, out, depth + 1);
        }
        CodeBlock::Loop(l) => collect(l.body(), t, out, depth + 1),
        CodeBlock::Call(c) => {
            if c.fn_hash() != vm_core::code_blocks::Dyn::dyn_hash() {
                match t.get(c.fn_hash()) {
                    Some(body) => {
                        out.push(format!("{:?}", c.fn_hash()));
                        collect(body, t, out, depth + 1);
                    }
                    None => out.push(format!("missing:{:?}", c.fn_hash())),
                }
            }
        }
        _ => {}
    }
}

pub fn check_history(choices: &Vec<u16>) -> Out {
    let mut ch = Ch::new(choices);
    let u = universe(&mut ch);
    let libs = build_libs(&u).map_err(|e| Viol::new("C11:universe", format!("generated library does not build: {e}"), json!({"libs": u.libs})))?;
    let n = 1 + ch.pick(12);
    let invalid = invalid_sources();
    let mut history: Vec<String> = vec![];
    let mut expected_sums: Vec<Option<u64>> = vec![];
    for i in 0..n {
        if ch.chance(1, 4) {
            history.push(invalid[ch.pick(invalid.len())].1.clone());
            expected_sums.push(None);
        } else {
            let (src, sum) = program_src_sum(&mut ch, &u, i as u64 + 1, None);
            history.push(src);
            expected_sums.push(Some(sum));
        }
    }
    let cj = |i: usize| json!({"libs": u.libs, "kernel": u.kernel, "history": history, "step": i, "expected_accumulator": expected_sums});
    let shared = fresh(&u, &libs, false).map_err(|e| Viol::new("C11:universe", e, cj(0)))?;
    let mut valid = 0;
    let mut classes = vec![];
    for (i, src) in history.iter().enumerate() {
        let compile = |a: &Assembler| -> Result<Result<vm_core::Program, String>, String> { vm::catch(|| a.compile(src).map_err(|e| format!("{e}"))) };
        let on_shared = compile(&shared).map_err(|p| Viol::new(format!("C11:asm-panic:{}", crate::diff::panic_site(&p)), p, cj(i)))?;
        let f1 = fresh(&u, &libs, false).map_err(|e| Viol::new("C11:universe", e, cj(i)))?;
        let on_fresh = compile(&f1).map_err(|p| Viol::new(format!("C11:asm-panic:{}", crate::diff::panic_site(&p)), p, cj(i)))?;
        if summary(&on_shared) != summary(&on_fresh) {
            return Err(Viol::new("C11:history-dependence", format!("compilation #{i} of the history gives {} on the long-lived assembler and {} on a fresh one", summary(&on_shared).chars().take(80).collect::<String>(), summary(&on_fresh).chars().take(80).collect::<String>()), cj(i)));
        }
        if libs.len() > 1 {
            let f2 = fresh(&u, &libs, true).map_err(|e| Viol::new("C11:universe", e, cj(i)))?;
            let rev = compile(&f2).map_err(|p| Viol::new(format!("C11:asm-panic:{}", crate::diff::panic_site(&p)), p, cj(i)))?;
            if summary(&rev) != summary(&on_fresh) {
                return Err(Viol::new("C11:library-order-dependence", format!("compilation #{i} depends on the order in which the libraries were added"), cj(i)));
            }
            classes.push("library-order".to_string());
        }
        if let Ok(p) = &on_shared {
            valid += 1;
            // self-containment: statically and by running it
            let mut targets = vec![];
            collect(p.root(), p.cb_table(), &mut targets, 0);
            if let Some(m) = targets.iter().find(|t| t.starts_with("missing:")) {
                return Err(Viol::new("C11:call-target-missing", format!("compilation #{i}: call target {m} is not in the code block table"), cj(i)));
            }
            let case = vm::Case::default();
            match vm::run(p, &case, ExecutionOptions::default()) {
                vm::Ran::Ok(t, _) => {
                    // every procedure body adds its own constant: the total tells whether the
                    // procedures that ran are the ones the source names
                    if let Some(want) = expected_sums[i] {
                        let got = vm::outputs_top_first(&t)[0];
                        if got != want {
                            return Err(Viol::new(
                                "C11:wrong-procedure-executed",
                                format!("compilation #{i}: the program leaves {got} in the accumulator, the procedures it names add up to {want}"),
                                cj(i),
                            ));
                        }
                    }
                }
                vm::Ran::Err(e, _) => {
                    let sig = match e {
                        ExecutionError::CodeBlockNotFound(_) | ExecutionError::DynamicCodeBlockNotFound(_) => "C11:body-missing-at-run-time",
                        _ => "C11:generated-program-fails",
                    };
                    return Err(Viol::new(sig, format!("compilation #{i}: execution fails: {e}"), cj(i)));
                }
                vm::Ran::Panic(pn) => return Err(Viol::new("C11:exec-panic", pn, cj(i))),
            }
        }
    }
    // a call by MAST root (`call.0x<digest>`) of a library procedure the long-lived assembler has
    // already compiled by name
    let mut soft = vec![];
    if ch.chance(1, 3) {
        let (path, alias, name) = u.exports[ch.pick(u.exports.len())].clone();
        let by_name = format!("use.{path}\nbegin call.{alias}::{name} end\n");
        let probe = fresh(&u, &libs, false).map_err(|e| Viol::new("C11:universe", e, cj(n)))?;
        let digest = match vm::catch(|| probe.compile(&by_name)) {
            Ok(Ok(p)) => match p.root() {
                CodeBlock::Call(c) => Some(c.fn_hash()),
                _ => None,
            },
            _ => None,
        };
        if let Some(d) = digest {
            let hex: String = d.as_bytes().iter().map(|b| format!("{:02x}", b)).collect();
            let by_root = format!("begin call.0x{hex} end\n");
            let cjr = || json!({"libs": u.libs, "kernel": u.kernel, "history": history, "then": [by_name, by_root]});
            let c = |a: &Assembler, src: &str| vm::catch(|| a.compile(src).map_err(|e| format!("{e}")));
            let _ = c(&shared, &by_name).map_err(|p| Viol::new(format!("C11:asm-panic:{}", crate::diff::panic_site(&p)), p, cjr()))?;
            let on_shared = c(&shared, &by_root).map_err(|p| Viol::new(format!("C11:asm-panic:{}", crate::diff::panic_site(&p)), p, cjr()))?;
            let on_fresh = c(&probe, &by_root);
            let f2 = fresh(&u, &libs, false).map_err(|e| Viol::new("C11:universe", e, cjr()))?;
            let on_really_fresh = c(&f2, &by_root).map_err(|p| Viol::new(format!("C11:asm-panic:{}", crate::diff::panic_site(&p)), p, cjr()))?;
            let _ = on_fresh;
            classes.push("call-by-mast-root".to_string());
            if summary(&on_shared) != summary(&on_really_fresh) {
                soft.push(Viol::new(
                    "C11:history-dependence:call-by-mast-root",
                    format!(
                        "`call.0x<root>` of a library procedure gives {} on an assembler that compiled a call by name before and {} on a fresh one with the same libraries",
                        summary(&on_shared).chars().take(60).collect::<String>(),
                        summary(&on_really_fresh).chars().take(60).collect::<String>()
                    ),
                    cjr(),
                ));
            }
            if let Ok(p) = &on_shared {
                let mut targets = vec![];
                collect(p.root(), p.cb_table(), &mut targets, 0);
                if let Some(m) = targets.iter().find(|t| t.starts_with("missing:")) {
                    return Err(Viol::new("C11:call-target-missing", format!("call by MAST root: call target {m} is not in the code block table"), cjr()));
                }
                match vm::run(p, &vm::Case::default(), ExecutionOptions::default()) {
                    vm::Ran::Ok(..) => {}
                    vm::Ran::Err(e, _) => {
                        let sig = match e {
                            ExecutionError::CodeBlockNotFound(_) | ExecutionError::DynamicCodeBlockNotFound(_) => "C11:body-missing-at-run-time",
                            _ => "C11:generated-program-fails",
                        };
                        return Err(Viol::new(sig, format!("call by MAST root: execution fails: {e}"), cjr()));
                    }
                    vm::Ran::Panic(pn) => return Err(Viol::new("C11:exec-panic", pn, cjr())),
                }
            }
        }
    }
    classes.push(format!("history-len~{}", n / 3 * 3));
    classes.push(format!("libs={}", libs.len()));
    if u.kernel.is_some() {
        classes.push("kernel".into());
    }
    Ok(Info { nontrivial: if n >= 2 || valid < n { Some(fp_str(&history.join("|"))) } else { None }, classes, sample: Some(json!({"history": history.iter().take(3).collect::<Vec<_>>(), "libs": u.libs.len()})), evals: n as u64, soft, ..Info::default() })
}

/// One program over a generated universe of libraries (modules with re-exports, local and imported
/// exec / call / procref chains), assembled on a fresh assembler and executed: every procedure
/// body adds its own constant to an accumulator, so the final value tells whether exactly the
/// procedures the source names were executed. Used by C06 (exec of local and imported procedures
/// behaves like the pasted body). Returns (source, libraries) for the evidence sample.
pub fn check_accumulator(choices: &Vec<u16>, prop: &str) -> Result<(String, usize), Viol> {
    let mut ch = Ch::new(choices);
    let u = universe(&mut ch);
    let libs = build_libs(&u).map_err(|e| Viol::new(format!("{prop}:universe"), format!("generated library does not build: {e}"), json!({"libs": u.libs})))?;
    let (src, want) = program_src_sum(&mut ch, &u, 1, None);
    let cj = || json!({"libs": u.libs, "kernel": u.kernel, "history": [src.clone()], "step": 0, "expected_accumulator": [want], "must_assemble": true});
    let a = fresh(&u, &libs, false).map_err(|e| Viol::new(format!("{prop}:universe"), e, cj()))?;
    let p = match vm::catch(|| a.compile(&src).map_err(|e| format!("{e}"))) {
        Err(pn) => return Err(Viol::new(format!("{prop}:asm-panic:{}", crate::diff::panic_site(&pn)), pn, cj())),
        Ok(Err(e)) => return Err(Viol::new(format!("{prop}:imported-procedures:does-not-assemble"), format!("a program that only names existing procedures does not assemble: {e}"), cj())),
        Ok(Ok(p)) => p,
    };
    match vm::run(&p, &vm::Case::default(), ExecutionOptions::default()) {
        vm::Ran::Ok(t, _) => {
            let got = vm::outputs_top_first(&t)[0];
            if got != want {
                return Err(Viol::new(format!("{prop}:imported-procedures:wrong-procedure-executed"), format!("the program leaves {got} in the accumulator, the bodies of the procedures it names add up to {want}"), cj()));
            }
            Ok((src, u.libs.len()))
        }
        vm::Ran::Err(e, _) => Err(Viol::new(format!("{prop}:imported-procedures:execution-fails"), format!("{e}"), cj())),
        vm::Ran::Panic(pn) => Err(Viol::new(format!("{prop}:exec-panic"), pn, cj())),
    }
}

/// the same program with one procedure reached directly or through a (re-)re-export
pub fn check_reexport(choices: &Vec<u16>) -> Out {
    let mut ch = Ch::new(choices);
    let u = universe(&mut ch);
    let libs = build_libs(&u).map_err(|e| Viol::new("C11:universe", e, json!({"libs": u.libs})))?;
    // same choices for both variants: clone the decoder position by regenerating from a fixed tail
    let tail: Vec<u16> = choices.iter().skip(200).copied().collect();
    let mut c1 = Ch::new(&tail);
    let mut c2 = Ch::new(&tail);
    let direct = program_src(&mut c1, &u, 1, Some(false));
    let via = program_src(&mut c2, &u, 1, Some(true));
    let cj = json!({"libs": u.libs, "kernel": u.kernel, "direct": direct, "via_reexport": via});
    let a = fresh(&u, &libs, false).map_err(|e| Viol::new("C11:universe", e, cj.clone()))?;
    let r1 = vm::catch(|| a.compile(&direct).map_err(|e| format!("{e}"))).map_err(|p| Viol::new(format!("C11:asm-panic:{}", crate::diff::panic_site(&p)), p, cj.clone()))?;
    let r2 = vm::catch(|| a.compile(&via).map_err(|e| format!("{e}"))).map_err(|p| Viol::new(format!("C11:asm-panic:{}", crate::diff::panic_site(&p)), p, cj.clone()))?;
    if summary(&r1) != summary(&r2) {
        return Err(Viol::new("C11:reexport-changes-program", "reaching a procedure through a re-export gives another program than reaching it directly", cj));
    }
    Ok(Info { nontrivial: if direct != via && r1.is_ok() { Some(fp_str(&via)) } else { None }, classes: vec![if direct != via { "reexport-variant".into() } else { "reexport-same-text".into() }], sample: Some(json!({"direct": direct, "via_reexport": via})), ..Info::default() })
}

pub fn run(ctx: &Ctx) {
    ctx.set_rule("enumerated invalid sources (undefined local/imported procedure or module, documented parameter ranges +-1, local index >= locals and any local access without locals, caller outside a kernel, call/syscall/dyncall in a kernel, division by a zero immediate, export in a program) must be rejected with an error; decorators at every position of valid sources must assemble; generated universes of 1..2 libraries x 1..3 modules with cross-module exec/call/procref, re-exports and re-exports of re-exports, optional kernel; histories of 1..12 compilations (valid and invalid interleaved) on one assembler compared step by step with a fresh assembler and with reversed library order (program hash, kernel, set of call targets with bodies); every call target is in the code block table and execution never misses a body; a procedure reached through a re-export gives the same program; non-trivial = history of >= 2 or containing an invalid source; distinct by history text");
    check_invalid(ctx);
    check_decorator_positions(ctx);
    ctx.run("history", ctx.n(1500, 150_000), || vec(any::<u16>(), 150..900), check_history);
    ctx.run("reexport", ctx.n(1500, 150_000), || vec(any::<u16>(), 300..900), check_reexport);
}

pub fn replay(ctx: &Ctx, v: &serde_json::Value) {
    let c = &v["case"];
    if c.get("class").is_some() {
        check_invalid(ctx);
        return;
    }
    if c.get("history").is_none() && c.get("direct").is_none() {
        check_decorator_positions(ctx);
        return;
    }
    // rebuild the universe from the stored sources
    let out = (|| -> Out {
        let libs_src: Vec<(String, Vec<(String, String)>)> = c["libs"]
            .as_array()
            .map(|a| a.iter().map(|l| (l[0].as_str().unwrap_or("").to_string(), l[1].as_array().unwrap().iter().map(|m| (m[0].as_str().unwrap().to_string(), m[1].as_str().unwrap().to_string())).collect())).collect())
            .unwrap_or_default();
        let u = Universe { libs: libs_src, exports: vec![], aliases: vec![], kernel: c["kernel"].as_str().map(|s| s.to_string()), sums: Default::default() };
        let libs = build_libs(&u).map_err(|e| Viol::new("C11:universe", e, c.clone()))?;
        let sig = v["signature"].as_str().unwrap_or("C11:replay");
        if let Some(h) = c["history"].as_array() {
            let shared = fresh(&u, &libs, false).map_err(|e| Viol::new("C11:universe", e, c.clone()))?;
            for (step, s) in h.iter().enumerate() {
                let src = s.as_str().unwrap_or("");
                let a = vm::catch(|| shared.compile(src).map_err(|e| format!("{e}"))).map_err(|p| Viol::new(sig, p, c.clone()))?;
                if c["must_assemble"].as_bool() == Some(true) {
                    if let Err(e) = &a {
                        return Err(Viol::new(sig, format!("does not assemble: {e}"), c.clone()));
                    }
                }
                let f = fresh(&u, &libs, false).map_err(|e| Viol::new("C11:universe", e, c.clone()))?;
                let b = vm::catch(|| f.compile(src).map_err(|e| format!("{e}"))).map_err(|p| Viol::new(sig, p, c.clone()))?;
                if summary(&a) != summary(&b) {
                    return Err(Viol::new(sig, "history dependence", c.clone()));
                }
                if libs.len() > 1 {
                    let f2 = fresh(&u, &libs, true).map_err(|e| Viol::new("C11:universe", e, c.clone()))?;
                    let r = vm::catch(|| f2.compile(src).map_err(|e| format!("{e}"))).map_err(|p| Viol::new(sig, p, c.clone()))?;
                    if summary(&r) != summary(&b) {
                        return Err(Viol::new(sig, "library order dependence", c.clone()));
                    }
                }
                if let Ok(p) = &a {
                    let mut t = vec![];
                    collect(p.root(), p.cb_table(), &mut t, 0);
                    if t.iter().any(|x| x.starts_with("missing:")) {
                        return Err(Viol::new(sig, "call target missing", c.clone()));
                    }
                    match vm::run(p, &vm::Case::default(), ExecutionOptions::default()) {
                        vm::Ran::Err(e, _) => return Err(Viol::new(sig, format!("{e}"), c.clone())),
                        vm::Ran::Ok(t, _) => {
                            if let Some(want) = c["expected_accumulator"].get(step).and_then(|x| x.as_u64()) {
                                let got = vm::outputs_top_first(&t)[0];
                                if got != want {
                                    return Err(Viol::new(sig, format!("accumulator {got}, expected {want}"), c.clone()));
                                }
                            }
                        }
                        vm::Ran::Panic(pn) => return Err(Viol::new(sig, pn, c.clone())),
                    }
                }
            }
        } else {
            let a = fresh(&u, &libs, false).map_err(|e| Viol::new("C11:universe", e, c.clone()))?;
            let r1 = a.compile(c["direct"].as_str().unwrap_or("")).map_err(|e| format!("{e}"));
            let r2 = a.compile(c["via_reexport"].as_str().unwrap_or("")).map_err(|e| format!("{e}"));
            if summary(&r1) != summary(&r2) {
                return Err(Viol::new(sig, "re-export changes the program", c.clone()));
            }
        }
        Ok(Info::default())
    })();
    ctx.record("replay", out);
}
