//! C04 — the AIR rejects any deviation from an operation's defined effect.
//!
//! For every honest trace the check walks the rows, and for each row pair builds the list of
//! *enforced cells* from the documentation (docs/src/design/stack/*.md, chiplets/*.md, range.md):
//! next-row stack items fixed by the operation's own constraints or by the general
//! copy / shift rules, depth b0', overflow address b1' on a right shift, the 0 shifted in on a left
//! shift with an empty overflow table, clk', fmp' on FMPUPDATE, the overflow helper h0, the helper
//! limbs of u32 operations, the inverse helpers of EQ / EQZ / EXPACC; hasher round outputs,
//! bitwise decomposition / aggregation cells, memory deltas / copied values, the range checker's
//! value column.  Each enforced cell is replaced by several wrong values and the main-segment
//! transition constraints are re-evaluated on the single frame the cell belongs to: every wrong
//! value must make at least one constraint non-zero.
//!
//! The table of enforced cells is written from the documents, never from air/src: cells the
//! documents leave to a bus (memory / advice / hasher results, the overflow table) are not mutated.

use crate::common::*;
use crate::engine::{fp_str, Ctx, Info, Out, Viol};
use crate::fe::P;
use crate::tracekit::{self as tk, opc};
use crate::vm::Case;
use air::ProcessorAir;
use processor::ExecutionOptions;
use proptest::collection::vec;
use proptest::prelude::*;
use serde_json::json;
use std::collections::{BTreeMap, BTreeSet};
use vm_core::{Felt, FieldElement, StarkField};
use winter_air::{Air, EvaluationFrame};
use winter_prover::matrix::ColMatrix;
use winter_prover::Trace;

#[derive(Clone, Copy, PartialEq, Debug)]
enum K {
    N,
    L,
    R,
}

struct OpSpec {
    name: &'static str,
    kind: K,
    /// first position of the general copy / shift region (position in the *current* row)
    from: usize,
    /// next-row positions outside the general region fixed by the operation's own constraints
    special: u16,
}

fn bits(r: std::ops::Range<usize>) -> u16 {
    let mut m = 0u16;
    for i in r {
        m |= 1 << i;
    }
    m
}

/// documented effect of each operation on the stack (None: not in the scope of this check)
fn op_spec(op: u8, is_loop_end: bool) -> Option<OpSpec> {
    use K::*;
    let s = |name, kind, from, special| Some(OpSpec { name, kind, from, special });
    match op {
        opc::NOOP => s("NOOP", N, 0, 0),
        opc::EQZ => s("EQZ", N, 1, 1),
        opc::NEG => s("NEG", N, 1, 1),
        opc::INV => s("INV", N, 1, 1),
        opc::INCR => s("INCR", N, 1, 1),
        opc::NOT => s("NOT", N, 1, 1),
        opc::FMPADD => s("FMPADD", N, 1, 1),
        opc::MLOAD => s("MLOAD", N, 1, 0),
        opc::SWAP => s("SWAP", N, 2, 0b11),
        opc::CALLER => s("CALLER", N, 4, 0),
        opc::MOVUP2 => s("MOVUP2", N, 3, bits(0..3)),
        opc::MOVDN2 => s("MOVDN2", N, 3, bits(0..3)),
        opc::MOVUP3 => s("MOVUP3", N, 4, bits(0..4)),
        opc::MOVDN3 => s("MOVDN3", N, 4, bits(0..4)),
        opc::ADVPOPW => s("ADVPOPW", N, 4, 0),
        opc::EXPACC => s("EXPACC", N, 4, bits(0..4)),
        opc::MOVUP4 => s("MOVUP4", N, 5, bits(0..5)),
        opc::MOVDN4 => s("MOVDN4", N, 5, bits(0..5)),
        opc::MOVUP5 => s("MOVUP5", N, 6, bits(0..6)),
        opc::MOVDN5 => s("MOVDN5", N, 6, bits(0..6)),
        opc::MOVUP6 => s("MOVUP6", N, 7, bits(0..7)),
        opc::MOVDN6 => s("MOVDN6", N, 7, bits(0..7)),
        opc::MOVUP7 => s("MOVUP7", N, 8, bits(0..8)),
        opc::MOVDN7 => s("MOVDN7", N, 8, bits(0..8)),
        opc::SWAPW => s("SWAPW", N, 8, bits(0..8)),
        opc::EXT2MUL => s("EXT2MUL", N, 4, bits(0..4)),
        opc::MOVUP8 => s("MOVUP8", N, 9, bits(0..9)),
        opc::MOVDN8 => s("MOVDN8", N, 9, bits(0..9)),
        opc::SWAPW2 => s("SWAPW2", N, 12, bits(0..12)),
        opc::SWAPW3 => s("SWAPW3", N, 16, bits(0..16)),
        opc::SWAPDW => s("SWAPDW", N, 16, bits(0..16)),
        opc::ASSERT => s("ASSERT", L, 1, 0),
        opc::EQ => s("EQ", L, 2, 1),
        opc::ADD => s("ADD", L, 2, 1),
        opc::MUL => s("MUL", L, 2, 1),
        opc::AND => s("AND", L, 2, 1),
        opc::OR => s("OR", L, 2, 1),
        opc::U32AND => s("U32AND", L, 2, 0),
        opc::U32XOR => s("U32XOR", L, 2, 0),
        opc::DROP => s("DROP", L, 1, 0),
        opc::CSWAP => s("CSWAP", L, 3, 0b11),
        opc::CSWAPW => s("CSWAPW", L, 9, bits(0..8)),
        opc::MLOADW => s("MLOADW", L, 5, 0),
        opc::MSTORE => s("MSTORE", L, 1, 0),
        opc::MSTOREW => s("MSTOREW", L, 1, 0),
        opc::FMPUPDATE => s("FMPUPDATE", L, 1, 0),
        opc::PAD => s("PAD", R, 0, 1),
        opc::DUP0 => s("DUP0", R, 0, 1),
        opc::DUP1 => s("DUP1", R, 0, 1),
        opc::DUP2 => s("DUP2", R, 0, 1),
        opc::DUP3 => s("DUP3", R, 0, 1),
        opc::DUP4 => s("DUP4", R, 0, 1),
        opc::DUP5 => s("DUP5", R, 0, 1),
        opc::DUP6 => s("DUP6", R, 0, 1),
        opc::DUP7 => s("DUP7", R, 0, 1),
        opc::DUP9 => s("DUP9", R, 0, 1),
        opc::DUP11 => s("DUP11", R, 0, 1),
        opc::DUP13 => s("DUP13", R, 0, 1),
        opc::DUP15 => s("DUP15", R, 0, 1),
        opc::ADVPOP => s("ADVPOP", R, 0, 0),
        opc::SDEPTH => s("SDEPTH", R, 0, 1),
        opc::CLK => s("CLK", R, 0, 1),
        opc::U32ADD => s("U32ADD", N, 2, 0b11),
        opc::U32SUB => s("U32SUB", N, 2, 0b11),
        opc::U32MUL => s("U32MUL", N, 2, 0b11),
        opc::U32DIV => s("U32DIV", N, 2, 0b11),
        opc::U32SPLIT => s("U32SPLIT", R, 1, 0b11),
        opc::U32ASSERT2 => s("U32ASSERT2", N, 0, 0),
        opc::U32ADD3 => s("U32ADD3", L, 3, 0b11),
        opc::U32MADD => s("U32MADD", L, 3, 0b11),
        opc::HPERM => s("HPERM", N, 12, 0),
        opc::MPVERIFY => s("MPVERIFY", N, 0, 0),
        // PIPE has no section of its own in io_ops.md; it is the advice-fed twin of MSTREAM
        opc::PIPE => s("PIPE", N, 8, 0),
        opc::MSTREAM => s("MSTREAM", N, 8, 0),
        opc::SPLIT => s("SPLIT", L, 1, 0),
        opc::LOOP => s("LOOP", L, 1, 0),
        opc::SPAN => s("SPAN", N, 0, 0),
        opc::JOIN => s("JOIN", N, 0, 0),
        opc::DYN => s("DYN", N, 0, 0),
        opc::MRUPDATE => s("MRUPDATE", N, 4, 0),
        opc::PUSH => s("PUSH", R, 0, 0),
        opc::SYSCALL => s("SYSCALL", N, 0, 0),
        opc::CALL => s("CALL", N, 0, 0),
        opc::END => {
            if is_loop_end {
                s("END(loop)", L, 1, 0)
            } else {
                s("END", N, 0, 0)
            }
        }
        opc::REPEAT => s("REPEAT", L, 1, 0),
        opc::RESPAN => s("RESPAN", N, 0, 0),
        opc::HALT => s("HALT", N, 0, 0),
        // FRIE2F4 and RCOMBBASE: not generated, constraints not modelled here
        _ => None,
    }
}

/// a cell of the frame (row r, row r+1)
#[derive(Clone, Debug)]
struct Cell {
    next: bool,
    col: usize,
    name: String,
    /// a second cell that moves together with the first (consistent propagation), with a function
    /// of the mutated value
    also: Option<(bool, usize, fn(Felt, &[Felt], &[Felt]) -> Felt)>,
    /// values that are legitimately accepted besides the honest one
    exclude: Vec<Felt>,
    /// when set only these values are tried
    only: Option<Vec<Felt>>,
}

impl Cell {
    fn new(next: bool, col: usize, name: impl Into<String>) -> Cell {
        Cell { next, col, name: name.into(), also: None, exclude: vec![], only: None }
    }
}

fn f(v: u64) -> Felt {
    Felt::new(v % P)
}

/// the wrong values tried for a cell holding `v`
fn wrong_values(v: Felt, near: &[Felt], salt: u64, k: usize) -> Vec<Felt> {
    let one = Felt::ONE;
    let mut c = vec![v + one, v - one, Felt::ZERO, one, f(2), v + f(1 << 32), f(P - 1), v + v, -v, f(16), f(17), f(0xffff), f(0xffff_ffff), f(1 << 16), v + f(1 << 16)];
    c.extend_from_slice(near);
    let mut h = salt ^ v.as_int().wrapping_mul(0x9E37_79B9_7F4A_7C15);
    for _ in 0..3 {
        h ^= h << 13;
        h ^= h >> 7;
        h ^= h << 17;
        c.push(f(h));
    }
    let mut seen = BTreeSet::new();
    let mut out: Vec<Felt> = c.into_iter().filter(|x| *x != v && seen.insert(x.as_int())).collect();
    // rotate by salt so that different rows try different subsets, then cut
    if !out.is_empty() {
        let n = out.len();
        out.rotate_left((salt as usize) % n);
        // always keep the +1 neighbour: the smallest deviation
        if !out.contains(&(v + one)) {
            out[0] = v + one;
        }
    }
    out.truncate(k);
    out
}

const HELPER: usize = tk::DEC_H + 2;

/// enforced cells of the stack / system part for the frame (cur, nxt)
fn stack_cells(cur: &[Felt], nxt: &[Felt], op: u8, sp: &OpSpec) -> Result<Vec<Cell>, String> {
    let mut cells = vec![];
    let b0 = cur[tk::B0].as_int();
    let s = |i: usize| cur[tk::STACK + i];
    let sn = |i: usize| nxt[tk::STACK + i];
    // --- general region, with the documented value as a self check of this table
    let mut expect: BTreeMap<usize, Felt> = BTreeMap::new();
    match sp.kind {
        K::N => {
            for i in sp.from..16 {
                expect.insert(i, s(i));
            }
        }
        K::L => {
            for i in sp.from..16 {
                expect.insert(i - 1, s(i));
            }
            if b0 == 16 {
                expect.insert(15, Felt::ZERO);
            }
        }
        K::R => {
            for i in sp.from..15 {
                expect.insert(i + 1, s(i));
            }
        }
    }
    if matches!(op, opc::MSTREAM | opc::PIPE) {
        expect.insert(12, s(12) + f(2));
    }
    for (i, e) in &expect {
        if sn(*i) != *e {
            return Err(format!("{}: honest s{}' = {} but the documented effect gives {}", sp.name, i, sn(*i).as_int(), e.as_int()));
        }
        let tag = if *i == 15 && sp.kind == K::L { "s15'(empty-overflow)".to_string() } else { format!("s{}'", i) };
        cells.push(Cell::new(true, tk::STACK + i, tag));
    }
    for i in 0..16 {
        if sp.special & (1 << i) != 0 && !expect.contains_key(&i) {
            cells.push(Cell::new(true, tk::STACK + i, format!("s{}'", i)));
        }
    }
    // --- depth, overflow address
    let b0n = nxt[tk::B0].as_int();
    let is_call_end = op == opc::END && (cur[tk::DEC_H + 6] == Felt::ONE || cur[tk::DEC_H + 7] == Felt::ONE);
    let want_b0 = match sp.kind {
        K::R => Some(b0 + 1),
        K::L => Some(if b0 > 16 { b0 - 1 } else { 16 }),
        K::N => {
            if matches!(op, opc::CALL | opc::SYSCALL) {
                Some(16)
            } else if is_call_end {
                None
            } else {
                Some(b0)
            }
        }
    };
    if let Some(w) = want_b0 {
        if w != b0n {
            return Err(format!("{}: honest b0' = {} but the documented effect gives {}", sp.name, b0n, w));
        }
        cells.push(Cell::new(true, tk::B0, "b0'"));
    }
    if sp.kind == K::R {
        if nxt[tk::B1] != cur[tk::CLK] {
            return Err(format!("{}: honest b1' is not clk", sp.name));
        }
        cells.push(Cell::new(true, tk::B1, "b1'"));
    }
    // overflow helper h0 = 1 / (b0 - 16)
    if b0 != 16 {
        cells.push(Cell::new(false, tk::H0, "h0(overflow)"));
    }
    // --- system
    if nxt[tk::CLK] != cur[tk::CLK] + Felt::ONE {
        return Err("honest clk' != clk + 1".into());
    }
    cells.push(Cell::new(true, tk::CLK, "clk'"));
    if op == opc::FMPUPDATE {
        cells.push(Cell::new(true, tk::FMP, "fmp'"));
    }
    // --- current-row cells fixed by the operation
    let h = |i: usize| Cell::new(false, HELPER + i, format!("helper{}", i));
    match op {
        opc::ASSERT => cells.push(Cell::new(false, tk::STACK, "s0")),
        opc::EQ => {
            if s(0) != s(1) {
                cells.push(h(0));
            }
        }
        opc::EQZ => {
            if s(0) != Felt::ZERO {
                cells.push(h(0));
            }
        }
        opc::EXPACC => cells.push(h(0)),
        opc::U32SPLIT | opc::U32MUL | opc::U32MADD => {
            for i in 0..4 {
                cells.push(h(i));
            }
            let v_lo = cur[HELPER].as_int() + (cur[HELPER + 1].as_int() << 16);
            if v_lo != 0 {
                cells.push(h(4));
            }
        }
        opc::U32ADD | opc::U32ADD3 => {
            for i in 0..3 {
                cells.push(h(i));
            }
        }
        opc::U32SUB => {
            for i in 0..2 {
                cells.push(h(i));
            }
        }
        opc::U32DIV | opc::U32ASSERT2 => {
            for i in 0..4 {
                cells.push(h(i));
            }
        }
        _ => {}
    }
    // --- non-binary operands that carry their consequence with them
    fn not_r(w: Felt, _c: &[Felt], _n: &[Felt]) -> Felt {
        Felt::ONE - w
    }
    fn and_r(w: Felt, c: &[Felt], _n: &[Felt]) -> Felt {
        w * c[tk::STACK + 1]
    }
    fn or_r(w: Felt, c: &[Felt], _n: &[Felt]) -> Felt {
        let b = c[tk::STACK + 1];
        w + b - w * b
    }
    let nb = |also: fn(Felt, &[Felt], &[Felt]) -> Felt| {
        let mut c = Cell::new(false, tk::STACK, "s0(non-binary,result-adjusted)");
        c.also = Some((true, tk::STACK, also));
        c.exclude = vec![Felt::ZERO, Felt::ONE];
        c
    };
    // U32ADD / U32ADD3: the documents fix the carry as s0' = h2; h3 is not mentioned there, so the
    // prover may put anything into it: a wrong carry must be rejected whatever h3 holds
    if matches!(op, opc::U32ADD | opc::U32ADD3) {
        fn carry_with_h3(w: Felt, c: &[Felt], _n: &[Felt]) -> Felt {
            // the carry that a constraint of the form s0' = 2^16 h3 + h2 would accept for h3 = w
            c[HELPER + 2] + Felt::new(1 << 16) * w
        }
        let mut c = Cell::new(false, HELPER + 3, "s0'(wrong carry, with the unused helper h3 adjusted)");
        c.also = Some((true, tk::STACK, carry_with_h3));
        c.only = Some(vec![Felt::ONE, Felt::new(2), Felt::new(7), Felt::new(0xffff)]);
        cells.push(c);
    }
    match op {
        opc::NOT => cells.push(nb(not_r)),
        opc::AND => cells.push(nb(and_r)),
        opc::OR => cells.push(nb(or_r)),
        _ => {}
    }
    Ok(cells)
}

pub struct RowReport {
    pub evals: u64,
    pub undetected: Vec<(String, String)>, // (signature tail, message)
}

fn eval_nonzero(air: &ProcessorAir, periodic: &[Vec<Felt>], frame: &EvaluationFrame<Felt>, step: usize, res: &mut [Felt]) -> bool {
    let pv = tk::periodic_at(periodic, step);
    for r in res.iter_mut() {
        *r = Felt::ZERO;
    }
    air.evaluate_transition(frame, &pv, res);
    res.iter().any(|v| *v != Felt::ZERO)
}

struct Walker<'a> {
    air: &'a ProcessorAir,
    periodic: Vec<Vec<Felt>>,
    main: &'a ColMatrix<Felt>,
    res: Vec<Felt>,
    evals: u64,
    undetected: BTreeMap<String, String>,
    inconsistent: Vec<String>,
    k: usize,
}

impl<'a> Walker<'a> {
    /// mutate `cell` of the frame (r, r+1) and evaluate the frames listed in `frames`
    /// (as offsets of the frame's first row from r: 0 => (r, r+1), -1 => (r-1, r))
    fn attack(&mut self, r: usize, group: &str, cell: &Cell, near: &[Felt], eval_prev_too: bool) {
        let cur = tk::row_of(self.main, r);
        let nxt = tk::row_of(self.main, r + 1);
        let honest = if cell.next { nxt[cell.col] } else { cur[cell.col] };
        let vals = match &cell.only {
            Some(o) => o.iter().copied().filter(|x| *x != honest).collect(),
            None => wrong_values(honest, near, (r as u64) * 131 + cell.col as u64, self.k + cell.exclude.len()),
        };
        let mut tried = 0;
        for w in vals {
            if cell.exclude.contains(&w) {
                continue;
            }
            if tried >= self.k {
                break;
            }
            tried += 1;
            let mut c2 = cur.clone();
            let mut n2 = nxt.clone();
            if cell.next {
                n2[cell.col] = w;
            } else {
                c2[cell.col] = w;
            }
            if let Some((nx, col, fun)) = cell.also {
                let v = fun(w, &cur, &nxt);
                if nx {
                    n2[col] = v;
                } else {
                    c2[col] = v;
                }
            }
            let mut frame = EvaluationFrame::<Felt>::new(self.main.num_cols());
            frame.current_mut().copy_from_slice(&c2);
            frame.next_mut().copy_from_slice(&n2);
            self.evals += 1;
            let mut caught = eval_nonzero(self.air, &self.periodic, &frame, r, &mut self.res);
            if !caught && eval_prev_too && !cell.next && r > 0 {
                let prev = tk::row_of(self.main, r - 1);
                frame.current_mut().copy_from_slice(&prev);
                frame.next_mut().copy_from_slice(&c2);
                caught = eval_nonzero(self.air, &self.periodic, &frame, r - 1, &mut self.res);
            }
            if !caught {
                let key = format!("{}:{}", group, cell.name);
                self.undetected.entry(key).or_insert_with(|| {
                    format!(
                        "row {}: {} {} changed from {} to {} and every transition constraint still evaluates to zero",
                        r,
                        group,
                        cell.name,
                        honest.as_int(),
                        w.as_int()
                    )
                });
            }
        }
    }

    fn honest_ok(&mut self, r: usize) -> bool {
        let mut frame = EvaluationFrame::<Felt>::new(self.main.num_cols());
        self.main.read_row_into(r, frame.current_mut());
        self.main.read_row_into(r + 1, frame.next_mut());
        !eval_nonzero(self.air, &self.periodic, &frame, r, &mut self.res)
    }
}

pub struct TraceReport {
    pub evals: u64,
    pub undetected: BTreeMap<String, String>,
    pub inconsistent: Vec<String>,
    pub classes: BTreeSet<String>,
}

/// `budget`: rows attacked per (operation, depth regime) class in this trace; `k`: wrong values per cell
pub fn attack_trace(air: &ProcessorAir, main: &ColMatrix<Felt>, budget: usize, k: usize, salt: u64) -> TraceReport {
    let n = main.num_rows();
    let last = n - 2; // frames (r, r+1) with r+1 below the random row
    let mut w = Walker {
        air,
        periodic: air.get_periodic_column_values(),
        main,
        res: vec![Felt::ZERO; air.context().num_main_transition_constraints()],
        evals: 0,
        undetected: BTreeMap::new(),
        inconsistent: vec![],
        k,
    };
    let mut classes = BTreeSet::new();
    let mut per_class: BTreeMap<String, usize> = BTreeMap::new();
    // ---------------- stack / system rows
    let mut last_op_row = 0;
    for r in 0..last {
        if tk::opcode_at(main, r) != opc::HALT {
            last_op_row = r;
        }
    }
    let stride_salt = (salt % 7) as usize;
    for r in 0..last.min(last_op_row + 3) {
        let cur = tk::row_of(main, r);
        let nxt = tk::row_of(main, r + 1);
        let op = tk::opcode_at(main, r);
        let is_loop_end = op == opc::END && cur[tk::DEC_H + 5] == Felt::ONE;
        let Some(sp) = op_spec(op, is_loop_end) else { continue };
        let regime = if cur[tk::B0].as_int() > 16 { ">16" } else { "=16" };
        let class = format!("{}@{}", sp.name, regime);
        let cnt = per_class.entry(class.clone()).or_insert(0);
        // the first rows of a class are always taken; later ones with a salt-dependent stride so
        // that different cases look at different occurrences
        if *cnt >= budget && (r + stride_salt) % 11 != 0 {
            continue;
        }
        if *cnt >= 3 * budget {
            continue;
        }
        *cnt += 1;
        if !w.honest_ok(r) {
            w.inconsistent.push(format!("row {} ({}): the honest frame does not satisfy the constraints", r, sp.name));
            continue;
        }
        let cells = match stack_cells(&cur, &nxt, op, &sp) {
            Ok(c) => c,
            Err(e) => {
                w.inconsistent.push(format!("row {}: {}", r, e));
                continue;
            }
        };
        classes.insert(class);
        for cell in &cells {
            let near: Vec<Felt> = if cell.col >= tk::STACK && cell.col < tk::STACK + 16 {
                let i = cell.col - tk::STACK;
                let mut v = vec![cur[cell.col], nxt[cell.col]];
                if i > 0 {
                    v.push(cur[cell.col - 1]);
                }
                if i < 15 {
                    v.push(cur[cell.col + 1]);
                }
                v
            } else {
                vec![cur[cell.col]]
            };
            w.attack(r, sp.name, cell, &near, false);
        }
    }
    // ---------------- chiplets
    let c0 = |r: usize| main.get(tk::CHIP, r).as_int();
    let c1 = |r: usize| main.get(tk::CHIP + 1, r).as_int();
    let c2 = |r: usize| main.get(tk::CHIP + 2, r).as_int();
    let is_hasher = |r: usize| c0(r) == 0;
    let is_bitwise = |r: usize| c0(r) == 1 && c1(r) == 0;
    let is_memory = |r: usize| c0(r) == 1 && c1(r) == 1 && c2(r) == 0;
    let mut hasher_cycles = 0usize;
    let mut bitwise_cycles = 0usize;
    let mut memory_rows = 0usize;
    let mut r = 0;
    while r < last {
        if is_hasher(r) && is_hasher(r + 1) && r % 8 != 7 {
            // one round of Rescue Prime Optimized: state' is a function of state
            if r % 8 == 0 {
                hasher_cycles += 1;
            }
            if hasher_cycles <= budget * 2 || (r / 8 + stride_salt) % 13 == 0 {
                if w.honest_ok(r) {
                    classes.insert("hasher-round".into());
                    // two state cells per round, chosen by row
                    for j in 0..2 {
                        let i = (r * 5 + j * 7 + stride_salt) % 12;
                        let cell = Cell::new(true, tk::CHIP + 4 + i, format!("state{}'", i));
                        w.attack(r, "hasher-round", &cell, &[main.get(tk::CHIP + 4 + i, r)], false);
                    }
                } else {
                    w.inconsistent.push(format!("hasher row {}: honest frame fails", r));
                }
            }
        }
        if is_hasher(r) && is_hasher(r + 1) && (hasher_cycles <= budget * 2 || (r / 8 + stride_salt) % 13 == 0) {
            // selectors and node index (chiplets/hasher.md, "Selector" and "Node index" constraints)
            let sel = (main.get(tk::CHIP + 1, r).as_int(), main.get(tk::CHIP + 2, r).as_int(), main.get(tk::CHIP + 3, r).as_int());
            let pos = r % 8;
            let merkle_sel = matches!(sel, (1, 0, 1) | (1, 1, 0) | (1, 1, 1));
            let f_an = (pos == 0 && merkle_sel) || (pos == 7 && merkle_sel);
            let f_out = pos == 7 && sel.0 == 0 && sel.1 == 0;
            if w.honest_ok(r) {
                if pos <= 5 {
                    // neither this row nor the next one is an output row: s1 and s2 are kept
                    for (c, nm) in [(tk::CHIP + 2, "s1'"), (tk::CHIP + 3, "s2'")] {
                        if main.get(c, r + 1) == main.get(c, r) {
                            classes.insert("hasher-selectors".into());
                            let mut cell = Cell::new(true, c, format!("{nm}(kept inside a cycle)"));
                            cell.only = Some(vec![Felt::ZERO, Felt::ONE, f(2), f(P - 1)]);
                            w.attack(r, "hasher", &cell, &[], false);
                        }
                    }
                }
                let ic = tk::CHIP + 16;
                if !f_an && !f_out && main.get(ic, r + 1) == main.get(ic, r) {
                    classes.insert("hasher-node-index(kept)".into());
                    w.attack(r, "hasher", &Cell::new(true, ic, "node-index'(kept when no node is absorbed)"), &[], false);
                }
                if f_out && main.get(ic, r) == Felt::ZERO {
                    classes.insert("hasher-node-index(zero at output)".into());
                    w.attack(r, "hasher", &Cell::new(false, ic, "node-index(zero on an output row)"), &[], false);
                }
            }
        }
        if is_hasher(r) && is_hasher(r + 1) && r % 8 == 7 {
            // last row of a cycle: what is carried into the next permutation depends on the
            // hasher's own selectors (columns CHIP+1..CHIP+3) at this row
            let sel = (main.get(tk::CHIP + 1, r).as_int(), main.get(tk::CHIP + 2, r).as_int(), main.get(tk::CHIP + 3, r).as_int());
            let st = tk::CHIP + 4;
            match sel {
                (1, 0, 0) => {
                    // linear hash, absorbing the next elements: the capacity h0..h3 is kept
                    if w.honest_ok(r) {
                        let ok = (0..4).all(|j| main.get(st + j, r + 1) == main.get(st + j, r));
                        if ok {
                            classes.insert("hasher-absorb(capacity kept)".into());
                            for j in 0..4 {
                                w.attack(r, "hasher", &Cell::new(true, st + j, format!("capacity{}'(linear hash absorbs the next elements)", j)), &[], false);
                            }
                        } else {
                            w.inconsistent.push(format!("hasher row {}: capacity is not carried over on an absorb row", r));
                        }
                    }
                }
                (1, 0, 1) | (1, 1, 0) | (1, 1, 1) => {
                    // Merkle path: the digest h4..h7 goes to h4'..h7' or h8'..h11' by the index bit
                    if w.honest_ok(r) {
                        let i0 = main.get(tk::CHIP + 16, r).as_int();
                        let i1 = main.get(tk::CHIP + 16, r + 1).as_int();
                        let b = i0.wrapping_sub(2 * i1);
                        if b <= 1 {
                            let off = if b == 0 { 4 } else { 8 };
                            let ok = (0..4).all(|j| main.get(st + off + j, r + 1) == main.get(st + 4 + j, r));
                            if ok {
                                classes.insert(format!("hasher-merkle-carry(b={})", b));
                                for j in 0..4 {
                                    w.attack(r, "hasher", &Cell::new(true, st + off + j, format!("digest{}'(carried into the next level of a Merkle path)", j)), &[], false);
                                }
                            } else {
                                w.inconsistent.push(format!("hasher row {}: the digest is not carried into the next Merkle level", r));
                            }
                        }
                    }
                }
                _ => {}
            }
        }
        if is_bitwise(r) {
            let bw = tk::CHIP + 2;
            let pos = r % 8;
            if pos == 0 {
                bitwise_cycles += 1;
            }
            if bitwise_cycles <= budget * 2 || (r / 8 + stride_salt) % 5 == 0 {
                if w.honest_ok(r) {
                    classes.insert("bitwise".into());
                    if pos != 7 && is_bitwise(r + 1) {
                        for (c, nm) in [(bw, "op-selector'"), (bw + 1, "a'"), (bw + 2, "b'"), (bw + 11, "prev-output'")] {
                            w.attack(r, "bitwise", &Cell::new(true, c, nm), &[main.get(c, r)], false);
                        }
                        // a wrong intermediate output carried into the next row's prev-output
                        fn same(w: Felt, _c: &[Felt], _n: &[Felt]) -> Felt {
                            w
                        }
                        let mut cell = Cell::new(false, bw + 12, "output(carried-forward)");
                        cell.also = Some((true, bw + 11, same));
                        w.attack(r, "bitwise", &cell, &[], true);
                    } else if pos == 7 {
                        w.attack(r, "bitwise", &Cell::new(false, bw + 12, "output(last-row)"), &[], true);
                    }
                    // decomposition bits of this row
                    for j in 0..8 {
                        let mut cell = Cell::new(false, bw + 3 + j, format!("{}-bit{}", if j < 4 { "a" } else { "b" }, j % 4));
                        cell.only = Some(vec![Felt::ZERO, Felt::ONE, f(2), f(P - 1)]);
                        w.attack(r, "bitwise", &cell, &[], true);
                    }
                    if pos == 0 {
                        w.attack(r, "bitwise", &Cell::new(false, bw + 11, "prev-output(first-row)"), &[], true);
                    }
                } else {
                    w.inconsistent.push(format!("bitwise row {}: honest frame fails", r));
                }
            }
        }
        if is_memory(r) && is_memory(r + 1) {
            let m = tk::CHIP + 3;
            memory_rows += 1;
            if memory_rows <= budget * 6 || (r + stride_salt) % 7 == 0 {
                if w.honest_ok(r) {
                    let g = |c: usize, rr: usize| main.get(m + c, rr);
                    let (ctx, ctxn, addr, addrn) = (g(2, r), g(2, r + 1), g(3, r), g(3, r + 1));
                    let same_ctx = ctx == ctxn;
                    let same_addr = same_ctx && addr == addrn;
                    classes.insert(format!("memory:{}", if !same_ctx { "ctx-change" } else if !same_addr { "addr-change" } else { "same-addr" }));
                    w.attack(r, "memory", &Cell::new(true, m + 9, "d0'"), &[], false);
                    w.attack(r, "memory", &Cell::new(true, m + 10, "d1'"), &[], false);
                    if !same_addr {
                        w.attack(r, "memory", &Cell::new(true, m + 11, "t'(inverse of the delta)"), &[], false);
                    }
                    let mut s1 = Cell::new(true, m + 1, "s1'");
                    s1.only = Some(vec![Felt::ZERO, Felt::ONE, f(2)]);
                    w.attack(r, "memory", &s1, &[], false);
                    if same_addr {
                        w.attack(r, "memory", &Cell::new(true, m + 4, "clk'(same address)"), &[], false);
                        if g(1, r + 1) == Felt::ONE {
                            classes.insert("memory:copy-read".into());
                            for i in 0..4 {
                                w.attack(r, "memory", &Cell::new(true, m + 5 + i, format!("v{}'(read of a previously accessed word)", i)), &[], false);
                            }
                        }
                    } else if same_ctx {
                        // the address moves: the delta constraint fixes it, except for the
                        // coincidence where the new address equals the old one
                        let mut c = Cell::new(true, m + 3, "addr'(same context)");
                        c.exclude = vec![addr];
                        w.attack(r, "memory", &c, &[], false);
                    }
                } else {
                    w.inconsistent.push(format!("memory row {}: honest frame fails", r));
                }
            }
        }
        r += 1;
    }
    // first read of a fresh word must return zeros: single-row constraint; take rows whose
    // neighbours do not tie the values to another row
    {
        let m = tk::CHIP + 3;
        let mut taken = 0;
        for r in 1..last {
            if is_memory(r) && main.get(m, r) == Felt::ONE && main.get(m + 1, r) == Felt::ZERO && taken < budget * 3 {
                let next_tied = is_memory(r + 1) && main.get(m + 1, r + 1) == Felt::ONE;
                if next_tied {
                    continue;
                }
                if !w.honest_ok(r) || !w.honest_ok(r - 1) {
                    continue;
                }
                taken += 1;
                classes.insert("memory:init-read".into());
                for i in 0..4 {
                    w.attack(r, "memory", &Cell::new(false, m + 5 + i, format!("v{}(first read of a word)", i)), &[], true);
                }
            }
        }
    }
    // the first memory row has no previous access: a read there is a first read (s1 = 0, zeros)
    {
        let m = tk::CHIP + 3;
        if let Some(r) = (1..last).find(|r| is_memory(*r)) {
            if main.get(m, r) == Felt::ONE && w.honest_ok(r) && w.honest_ok(r - 1) {
                classes.insert("memory:first-row-read".into());
                fn bump(_w: Felt, c: &[Felt], _n: &[Felt]) -> Felt {
                    c[tk::CHIP + 3 + 5] + Felt::ONE
                }
                let mut cell = Cell::new(false, m + 1, "s1(first memory row, with a non-zero v0)");
                cell.only = Some(vec![Felt::ONE]);
                cell.also = Some((false, m + 5, bump));
                w.attack(r, "memory", &cell, &[], true);
            }
        }
    }
    // ---------------- range checker: v' - v must be 0 or a power of three up to 3^7
    {
        let allowed: Vec<u64> = vec![0, 1, 3, 9, 27, 81, 243, 729, 2187];
        let mut taken = 0;
        for r in 0..last {
            let v = main.get(tk::RANGE_V, r);
            let vn = main.get(tk::RANGE_V, r + 1);
            let interesting = v != vn;
            if !(interesting || (r + stride_salt) % 97 == 0) {
                continue;
            }
            if taken >= budget * 8 {
                break;
            }
            if !w.honest_ok(r) {
                continue;
            }
            taken += 1;
            classes.insert(format!("range:{}", if interesting { "step" } else { "stay" }));
            let mut cell = Cell::new(true, tk::RANGE_V, "v'");
            cell.exclude = allowed.iter().map(|d| v + f(*d)).collect();
            w.attack(r, "range", &cell, &[v + f(2), v + f(4), v + f(6561), v + f(2188), v - Felt::ONE], false);
        }
    }
    TraceReport { evals: w.evals, undetected: w.undetected, inconsistent: w.inconsistent, classes }
}

fn gen_cfg() -> crate::gen::GenCfg {
    crate::gen::GenCfg { max_nodes: 90, ..full_cfg() }
}

pub fn check_case(case: &Case, program: &vm_core::Program, trace: &processor::ExecutionTrace, budget: usize, k: usize, salt: u64) -> Out {
    let cj = || json!({"case": case.to_json()});
    let air = tk::make_air(trace, program_info(program), case.stack_inputs(), trace.stack_outputs().clone());
    let main = trace.main_segment();
    let rep = attack_trace(&air, main, budget, k, salt);
    let mut soft = vec![];
    for (key, msg) in &rep.undetected {
        soft.push(Viol::new(format!("C04:undetected:{}", key), msg.clone(), cj()));
    }
    let mut classes: Vec<String> = rep.classes.iter().cloned().collect();
    if !rep.inconsistent.is_empty() {
        classes.push("rows-skipped(honest frame inconsistent with the documented effect)".into());
        if std::env::var("VERIF_DEBUG").is_ok() {
            eprintln!("C04 NOTE: {:?}\n{}", &rep.inconsistent[..rep.inconsistent.len().min(3)], case.src);
        }
    }
    let nontrivial = rep.classes.len() >= 8;
    let extra: Vec<u64> = rep.classes.iter().map(|c| fp_str(c)).collect();
    Ok(Info {
        nontrivial: if nontrivial { Some(fp_str(&case.src)) } else { None },
        classes,
        sample: Some(json!({"src": case.src, "stack_top_first": case.stack, "row_classes_attacked": rep.classes.iter().take(24).collect::<Vec<_>>(), "wrong_values_evaluated": rep.evals})),
        evals: rep.evals,
        extra_nontrivial: extra,
        soft,
    })
}

pub fn check(choices: &Vec<u16>, budget: usize, k: usize) -> Out {
    let ex = match exec_generated("C04", choices, gen_cfg(), ExecutionOptions::default())? {
        ExecOutcome::Done(e) => e,
        ExecOutcome::Skipped(why) => return Ok(Info { classes: vec![format!("skipped:{}", why.split(':').next().unwrap())], ..Info::default() }),
    };
    let Executed { g, program, trace } = ex;
    check_case(&g.case, &program, &trace, budget, k, choices.len() as u64 + choices.first().copied().unwrap_or(0) as u64)
}

/// hand-written programs that put operations the generator rarely or never emits on a trace, in
/// both depth regimes
pub fn directed() -> Vec<Case> {
    let mut v = vec![];
    let bodies: Vec<(&str, Vec<u64>)> = vec![
        ("clk sdepth clk add drop", vec![1, 2, 3]),
        ("u32assert2 u32assert u32assertw drop", vec![1, 2, 3, 4, 5]),
        ("u32split u32wrapping_add u32overflowing_add3 u32overflowing_madd push.7 u32divmod u32overflowing_sub u32overflowing_mul drop drop", vec![0xffff_ffff, 77, 1 << 40, 3, 5, 9, 11, 13]),
        ("hperm hmerge mem_stream drop", vec![1, 2, 3, 4, 5, 6, 7, 8, 9, 10, 11, 12, 100]),
        ("adv_push.2 adv_loadw adv_pipe drop", vec![1, 2, 3, 4, 5, 6, 7, 8, 9, 10, 11, 12, 200]),
        ("push.3 exp.u8 push.5 push.3 exp.u6 ext2mul eq.0 eq.0 neq.3 not", vec![2, 3, 5, 7, 11]),
        ("push.1 if.true push.2 else push.3 end push.1 while.true push.0 end repeat.3 swap end", vec![4, 5]),
        ("push.1 push.0 cswap push.1 cswapw swapw.2 swapw.3 swapdw movup.8 movdn.8 movup.5 movdn.3 drop drop push.1 push.0 and push.1 or", vec![1, 0, 1, 1, 5, 6, 7, 8, 9, 10, 11, 12, 13, 14, 15, 16]),
        ("u32and u32xor u32or u32not u32shl.3 u32rotr.5 u32popcnt", vec![0xdead_beef, 0x1234_5678, 99, 12, 13]),
        ("mem_storew.10 mem_loadw.10 mem_store.11 mem_load.11 mem_load.4000 mem_loadw.10 push.7 mem_store.10 mem_load.10", vec![1, 2, 3, 4, 5]),
    ];
    for (b, st) in &bodies {
        // depth 16 and depth > 16 (three extra items below)
        v.push(Case { src: format!("begin {} end", b), stack: st.clone(), adv: (1..40).collect(), ..Case::default() });
        v.push(Case { src: format!("begin push.91 push.92 push.93 {} drop drop drop end", b), stack: st.clone(), adv: (1..40).collect(), ..Case::default() });
    }
    // Merkle operations (MPVERIFY, MRUPDATE and the hasher's Merkle-path rows)
    {
        use vm_core::crypto::merkle::MerkleTree;
        for depth in [1u32, 2, 3, 4] {
            let n = 1usize << depth;
            let leaves: Vec<[u64; 4]> = (0..n).map(|i| [i as u64 + 1, 7, 9, (i * i) as u64 + 3]).collect();
            let words: Vec<vm_core::Word> = leaves.iter().map(|w| w.map(Felt::new)).collect();
            let mt = MerkleTree::new(words.clone()).unwrap();
            let root: Vec<u64> = mt.root().as_elements().iter().map(|e| e.as_int()).collect();
            for idx in [0usize, n - 1, n / 2] {
                // mtree_get: [d, i, R, ...]
                let mut st = vec![depth as u64, idx as u64];
                st.extend(root.iter().rev());
                v.push(Case { src: "begin mtree_get dropw end".into(), stack: st.clone(), trees: vec![leaves.clone()], ..Case::default() });
                // mtree_set: [d, i, R, V', ...]
                let mut st2 = st.clone();
                st2.extend([5u64, 6, 7, 8]);
                v.push(Case { src: "begin mtree_set dropw end".into(), stack: st2, trees: vec![leaves.clone()], ..Case::default() });
                // mtree_verify: [V, d, i, R, ...]
                let mut st3: Vec<u64> = leaves[idx].iter().rev().copied().collect();
                st3.extend(st.iter());
                v.push(Case { src: "begin mtree_verify end".into(), stack: st3, trees: vec![leaves.clone()], ..Case::default() });
            }
        }
    }
    // procedures: locals (FMPUPDATE / FMPADD), call, syscall, dynexec, dyncall, caller
    let kernel = "export.kfoo\n  caller drop drop drop drop push.5 add\nend\n";
    let src = "proc.loc.2\n  loc_load.0 loc_store.0 loc_storew.1 loc_loadw.1 locaddr.0 drop\nend\nproc.bar\n  push.1 add exec.loc\nend\nbegin\n  call.bar syscall.kfoo procref.bar dynexec procref.bar dyncall drop drop drop drop\nend";
    for extra in [false, true] {
        let s = if extra { src.replace("begin\n", "begin\n push.91 push.92 push.93 ").replace("drop drop drop drop\nend", "drop drop drop drop drop drop drop\nend") } else { src.to_string() };
        v.push(Case { src: s, kernel: Some(kernel.to_string()), stack: vec![1, 2, 3, 4, 5, 6, 7, 8], ..Case::default() });
    }
    v
}

/// operand kinds of the templated family (top of the stack first)
#[derive(Clone, Copy)]
enum Kd {
    F,
    NZ,
    U,
    NZU,
    B,
    S6,
    Addr,
}

const TEMPLATES: &[(&str, &[Kd])] = {
    use Kd::*;
    &[
        ("add mul neg add.1", &[F, F, F]),
        ("inv", &[NZ]),
        ("eq", &[F, F]),
        ("dup eq", &[F]),
        ("eq.0", &[F]),
        ("eq.0", &[B]),
        ("not and or", &[B, B, B]),
        ("u32split", &[F]),
        ("u32overflowing_add", &[U, U]),
        ("u32overflowing_add3", &[U, U, U]),
        ("u32overflowing_sub", &[U, U]),
        ("u32overflowing_mul", &[U, U]),
        ("u32overflowing_madd", &[U, U, U]),
        ("u32divmod", &[NZU, U]),
        ("u32assert2", &[U, U]),
        ("u32and", &[U, U]),
        ("u32xor", &[U, U]),
        ("swap dup.3 movup.5 movdn.7 swapw swapw.2 swapw.3 swapdw movup.8 movdn.8 dup.15 dup.9 push.0 drop drop drop drop", &[F, F, F, F, F, F, F, F, F, F, F, F, F, F, F, F]),
        ("movup.2 movdn.2 movup.3 movdn.3 movup.4 movdn.4 movup.6 movdn.6 movup.7 movdn.5 dup.0 dup.1 dup.2 dup.4 dup.5 dup.6 dup.7 dup.11 dup.13 drop drop drop drop drop drop drop drop drop", &[F, F, F, F, F, F, F, F, F, F, F, F, F, F, F, F]),
        ("cswap", &[B, F, F]),
        ("cswapw", &[B, F, F, F, F, F, F, F, F]),
        ("exp.u6", &[S6, F]),
        ("ext2mul", &[F, F, F, F]),
        ("clk sdepth clk drop drop drop", &[F]),
        ("mem_storew.5 mem_stream", &[F, F, F, F, F, F, F, F, F, F, F, F, Addr]),
        ("mem_store.9 mem_load.9 mem_loadw.9 mem_load.77", &[F, F, F, F, F]),
        ("hperm", &[F, F, F, F, F, F, F, F, F, F, F, F]),
        ("hmerge", &[F, F, F, F, F, F, F, F]),
        ("adv_loadw adv_pipe", &[F, F, F, F, F, F, F, F, F, F, F, F, Addr]),
        ("adv_push.1 adv_push.2", &[F]),
        ("if.true add else mul end", &[B, F, F]),
        ("repeat.3 add end", &[F, F, F, F]),
        ("push.1 while.true push.0 end", &[F]),
        ("assert", &[]),
    ]
};

/// one template, random operands of the right kind, in one of the two depth regimes
pub fn templated(choices: &[u16]) -> (Case, String) {
    let mut ch = crate::gen::Ch::new(choices);
    let t = ch.pick(TEMPLATES.len());
    let (body, kinds) = TEMPLATES[t];
    let mut stack = vec![];
    for k in kinds.iter() {
        let boundary = ch.chance(1, 4);
        let v = match k {
            Kd::F => {
                if boundary {
                    crate::fe::BOUNDARY[ch.pick(crate::fe::BOUNDARY.len())]
                } else {
                    ch.felt()
                }
            }
            Kd::NZ => ch.felt().max(1),
            Kd::U => {
                if boundary {
                    crate::fe::BOUNDARY_U32[ch.pick(crate::fe::BOUNDARY_U32.len())]
                } else {
                    ch.u32v()
                }
            }
            Kd::NZU => ch.u32v().max(1),
            Kd::B => ch.pick(2) as u64,
            Kd::S6 => ch.pick(64) as u64,
            Kd::Addr => ch.pick(1000) as u64 * 4,
        };
        stack.push(v % P);
    }
    let body = if body == "assert" { "push.1 assert".to_string() } else { body.to_string() };
    let extra = ch.pick(4); // 0: depth 16; 1..3: that many extra items below
    let mut src = String::from("begin");
    // extra items go below the operands: they are supplied as inputs beyond position 16
    while stack.len() < 16 && extra > 0 {
        stack.push(ch.felt());
    }
    for _ in 0..extra {
        stack.push(ch.felt());
    }
    src.push(' ');
    src.push_str(&body);
    // bring the depth back to 16 for the end of the program
    src.push_str(" swapdw");
    for _ in 0..extra + 3 {
        src.push_str(" drop");
    }
    src.push_str(" end");
    let adv: Vec<u64> = (0..24).map(|_| ch.felt()).collect();
    (Case { src, stack, adv, ..Case::default() }, format!("template:{}", body.split(' ').next().unwrap()))
}

fn run_templated(choices: &Vec<u16>, k: usize) -> Out {
    let (case, label) = templated(choices);
    let mut out = run_directed_k(&case, 1000, k)?;
    out.classes.push(label);
    Ok(out)
}

fn run_directed(case: &Case) -> Out {
    run_directed_k(case, 1000, 12)
}

fn run_directed_k(case: &Case, budget: usize, k: usize) -> Out {
    let program = match crate::vm::assemble(case, false) {
        crate::vm::Assembled::Ok(p) => p,
        crate::vm::Assembled::Err(e) => return Ok(Info { classes: vec![format!("directed-skipped:asm:{}", e.chars().take(60).collect::<String>())], ..Info::default() }),
        crate::vm::Assembled::Panic(p) => return Ok(Info { classes: vec![format!("directed-skipped:asm-panic:{}", p.chars().take(60).collect::<String>())], ..Info::default() }),
    };
    let trace = match crate::vm::run(&program, case, ExecutionOptions::default()) {
        crate::vm::Ran::Ok(t, _) => t,
        crate::vm::Ran::Err(e, _) => {
            if std::env::var("VERIF_DEBUG").is_ok() {
                eprintln!("C04 directed program failed: {e}\n{}\n{:?}", case.src, case.stack);
            }
            return Ok(Info { classes: vec![format!("directed-skipped:exec:{}", e.to_string().chars().take(60).collect::<String>())], ..Info::default() });
        }
        crate::vm::Ran::Panic(p) => return Ok(Info { classes: vec![format!("directed-skipped:exec-panic:{}", p.chars().take(60).collect::<String>())], ..Info::default() }),
    };
    check_case(case, &program, &trace, budget, k, 3)
}

pub fn run(ctx: &Ctx) {
    ctx.set_rule("honest traces of generated and directed programs; for every attacked row each cell the documents say is fixed by a transition constraint (next-row stack items by operation or by copy/shift rule, b0', b1' on right shifts, the 0 shifted in on left shifts at depth 16, clk', fmp' on FMPUPDATE, overflow helper h0, u32 helper limbs, EQ/EQZ/EXPACC helpers, hasher round outputs, bitwise cells, memory deltas/copies/first-read zeros, range-checker value) is replaced by wrong values and the frame re-evaluated: some constraint must become non-zero. non-trivial = a trace where at least 8 (operation, depth regime) / chiplet classes were attacked; distinct by program and by class");
    ctx.assume("cells fixed only through a bus (advice / memory / hasher / bitwise results on the stack, s15' and b1' on a left shift with a non-empty overflow table, b0'/b1' at the END of a call) are outside this property and are not mutated; FRIE2F4 and RCOMBBASE rows are skipped");
    *ctx.level.lock().unwrap() = "fault_enumeration".into();
    let d = directed();
    ctx.run_list("directed", &d, run_directed);
    let (budget, k) = if ctx.quick() { (3, 4) } else { (6, 8) };
    ctx.run("templated", ctx.n(6000, 200_000), || vec(any::<u16>(), 60..120), move |c| run_templated(c, k + 2));
    ctx.run("generated", ctx.n(3000, 100_000), || vec(any::<u16>(), 20..700), move |c| check(c, budget, k));
}

pub fn replay(ctx: &Ctx, v: &serde_json::Value) {
    let case = Case::from_json(&v["case"]["case"]);
    ctx.record("replay", run_directed(&case));
}

/// development aid: histogram of undetected (operation, cell) pairs over n generated cases
pub fn survey(n: u32, seed: u64) {
    use proptest::strategy::ValueTree;
    use proptest::test_runner::{Config, RngAlgorithm, TestRng, TestRunner};
    let mut hist: BTreeMap<String, (u64, String)> = BTreeMap::new();
    let mut classes: BTreeMap<String, u64> = BTreeMap::new();
    let mut absorb = |out: Out| match out {
        Ok(info) => {
            for s in info.soft {
                let e = hist.entry(s.sig.clone()).or_insert((0, s.msg.clone()));
                e.0 += 1;
            }
            for c in info.classes {
                *classes.entry(c).or_insert(0) += 1;
            }
        }
        Err(v) => {
            let e = hist.entry(format!("HARD {}", v.sig)).or_insert((0, v.msg.clone()));
            e.0 += 1;
        }
    };
    for c in directed() {
        absorb(run_directed(&c));
    }
    let mut seedb = [0u8; 32];
    seedb[..8].copy_from_slice(&seed.to_le_bytes());
    let mut runner = TestRunner::new_with_rng(Config::default(), TestRng::from_seed(RngAlgorithm::ChaCha, &seedb));
    let strat = vec(any::<u16>(), 20..700);
    for _ in 0..n {
        let c = strat.new_tree(&mut runner).unwrap().current();
        absorb(crate::vm::catch(|| check(&c, 4, 6)).unwrap_or_else(|p| Err(Viol::new("panic", p, json!({})))));
    }
    let strat2 = vec(any::<u16>(), 60..120);
    for _ in 0..n * 3 {
        let c = strat2.new_tree(&mut runner).unwrap().current();
        absorb(crate::vm::catch(|| run_templated(&c, 6)).unwrap_or_else(|p| Err(Viol::new("panic", p, json!({})))));
    }
    for (k, (n, msg)) in &hist {
        println!("{:6}  {}   e.g. {}", n, k, msg);
    }
    println!("--- classes");
    for (k, n) in &classes {
        println!("{:6}  {}", n, k);
    }
}
