//! C09 — prover-supplied hints cannot change results.

use crate::engine::{fp_str, Ctx, Info, Out, Viol};
use crate::fe::{self, P};
use crate::gen::Ch;
use crate::vm::{self, Case};
use processor::crypto::{MerklePath, MerkleStore, MerkleTree};
use processor::{AdviceExtractor, AdviceInputs, AdviceProvider, AdviceSource, ExecutionError, ExecutionOptions, Host, HostResponse, MemAdviceProvider, ProcessState};
use proptest::collection::vec;
use proptest::prelude::*;
use serde_json::json;
use vm_core::{AdviceInjector, DebugOptions, Felt, StarkField, Word};

#[derive(Clone, Debug)]
pub enum PathMode {
    Honest,
    AlterSibling(usize),
    OtherIndex(u64),
    Shorter,
    Longer,
    Empty,
    /// the path of (depth, index) in the tree with the given root
    Of(Word, u8, u64),
}

#[derive(Clone, Debug)]
pub struct Script {
    /// values handed out by the advice stack instead of the honest hint (first popped first)
    pub stack_hint: Option<Vec<u64>>,
    /// node pushed by adv.push_mtnode instead of the honest one
    pub node_hint: Option<[u64; 4]>,
    pub path: PathMode,
}

pub struct DishonestHost {
    pub adv: MemAdviceProvider,
    pub script: Script,
    pub lied: bool,
}

impl DishonestHost {
    fn alter(&mut self, honest: MerklePath) -> Result<HostResponse, ExecutionError> {
        let mut nodes: Vec<vm_core::crypto::hash::RpoDigest> = honest.iter().copied().collect();
        match &self.script.path {
            PathMode::Honest => {}
            PathMode::AlterSibling(i) => {
                if !nodes.is_empty() {
                    let k = i % nodes.len();
                    let mut w: Word = nodes[k].into();
                    w[0] += Felt::new(1);
                    nodes[k] = w.into();
                    self.lied = true;
                }
            }
            PathMode::Shorter => {
                if !nodes.is_empty() {
                    nodes.pop();
                    self.lied = true;
                }
            }
            PathMode::Longer => {
                nodes.push([Felt::new(1), Felt::new(2), Felt::new(3), Felt::new(4)].into());
                self.lied = true;
            }
            PathMode::Empty => {
                self.lied = !nodes.is_empty();
                nodes.clear();
            }
            PathMode::OtherIndex(_) | PathMode::Of(..) => unreachable!(),
        }
        Ok(HostResponse::MerklePath(MerklePath::new(nodes)))
    }
}

impl Host for DishonestHost {
    fn get_advice<S: ProcessState>(&mut self, process: &S, extractor: AdviceExtractor) -> Result<HostResponse, ExecutionError> {
        if extractor == AdviceExtractor::GetMerklePath {
            let depth = process.get_stack_item(4);
            let index = process.get_stack_item(5);
            let root = [process.get_stack_item(9), process.get_stack_item(8), process.get_stack_item(7), process.get_stack_item(6)];
            return match self.script.path.clone() {
                PathMode::OtherIndex(j) => {
                    self.lied = true;
                    self.adv.get_merkle_path(root, &depth, &Felt::new(j)).map(HostResponse::MerklePath)
                }
                PathMode::Of(r, d, j) => {
                    self.lied = true;
                    self.adv.get_merkle_path(r, &Felt::new(d as u64), &Felt::new(j)).map(HostResponse::MerklePath)
                }
                _ => {
                    let honest = self.adv.get_merkle_path(root, &depth, &index)?;
                    self.alter(honest)
                }
            };
        }
        self.adv.get_advice(process, &extractor)
    }

    fn set_advice<S: ProcessState>(&mut self, process: &S, injector: AdviceInjector) -> Result<HostResponse, ExecutionError> {
        use AdviceInjector::*;
        match injector {
            U32Clz | U32Ctz | U32Clo | U32Cto | ILog2 | Ext2Inv | U64Div if self.script.stack_hint.is_some() => {
                let v = self.script.stack_hint.clone().unwrap();
                for x in v.iter().rev() {
                    self.adv.push_stack(AdviceSource::Value(Felt::new(*x)))?;
                }
                self.lied = true;
                Ok(HostResponse::None)
            }
            MerkleNodeToStack if self.script.node_hint.is_some() => {
                let w = self.script.node_hint.unwrap().map(Felt::new);
                self.adv.push_stack(AdviceSource::Word(w))?;
                self.lied = true;
                Ok(HostResponse::None)
            }
            UpdateMerkleNode => {
                let r = self.adv.set_advice(process, &injector)?;
                match r {
                    HostResponse::MerklePath(p) if !matches!(self.script.path, PathMode::OtherIndex(_) | PathMode::Of(..)) => self.alter(p),
                    other => Ok(other),
                }
            }
            _ => self.adv.set_advice(process, &injector),
        }
    }

    fn on_event<S: ProcessState>(&mut self, _p: &S, _id: u32) -> Result<HostResponse, ExecutionError> {
        Ok(HostResponse::None)
    }
    fn on_debug<S: ProcessState>(&mut self, _p: &S, _o: &DebugOptions) -> Result<HostResponse, ExecutionError> {
        Ok(HostResponse::None)
    }
    fn on_trace<S: ProcessState>(&mut self, _p: &S, _id: u32) -> Result<HostResponse, ExecutionError> {
        Ok(HostResponse::None)
    }
}

thread_local! {
    static ASM: std::cell::RefCell<Option<assembly::Assembler>> = std::cell::RefCell::new(None);
}
fn assemble_std(src: &str) -> Result<vm_core::Program, String> {
    ASM.with(|a| {
        let mut a = a.borrow_mut();
        if a.is_none() {
            *a = Some(assembly::Assembler::default().with_library(&stdlib::StdLibrary::default()).map_err(|e| format!("{e}"))?);
        }
        match vm::catch(|| a.as_ref().unwrap().compile(src).map_err(|e| format!("{e}"))) {
            Ok(r) => r,
            Err(p) => {
                *a = None;
                Err(format!("assembler panic: {p}"))
            }
        }
    })
}

pub enum Res {
    Ok(Vec<u64>, bool),
    NotCompleted(String),
}

pub fn run_with(src: &str, stack: &[u64], inputs: AdviceInputs, script: Script) -> Result<Res, String> {
    let program = assemble_std(src)?;
    let case = Case { stack: stack.to_vec(), ..Case::default() };
    let mut host = DishonestHost { adv: MemAdviceProvider::from(inputs), script, lied: false };
    let r = vm::catch(|| processor::execute(&program, case.stack_inputs(), &mut host, crate::vm::capped(ExecutionOptions::default())));
    Ok(match r {
        Ok(Ok(t)) => Res::Ok(vm::outputs_top_first(&t), host.lied),
        Ok(Err(e)) => Res::NotCompleted(format!("{e}")),
        // a panic is "does not complete": acceptable for this property
        Err(p) => Res::NotCompleted(format!("panic: {p}")),
    })
}

const SENT: [u64; 3] = [0xA1, 0xB2, 0xC3];

/// generic judge: an Ok result must be the mathematically correct one
fn judge(label: &str, hint_class: &str, r: Res, want_top: &[u64], honest: bool, cj: serde_json::Value) -> Out {
    match r {
        Res::Ok(out, lied) => {
            if out[..want_top.len()] != want_top[..] {
                let sig = if honest { format!("C09:honest-wrong:{label}") } else { format!("C09:wrong-result-accepted:{label}") };
                return Err(Viol::new(sig, format!("{label} completed with {:?}, the correct result is {:?} (hint class {hint_class})", &out[..want_top.len()], want_top), cj));
            }
            if out[want_top.len()..want_top.len() + SENT.len()] != SENT[..] {
                return Err(Viol::new(format!("C09:rest-of-stack:{label}"), format!("{label} changed the stack below its operands"), cj));
            }
            Ok(Info {
                nontrivial: if lied { Some(fp_str(&format!("{label}|{hint_class}|ok|{}", cj))) } else { None },
                classes: vec![format!("{label}:{}", if honest { "honest" } else if lied { "lie-harmless" } else { "no-lie" })],
                sample: if lied { Some(cj) } else { None },
                ..Info::default()
            })
        }
        Res::NotCompleted(e) => {
            if honest {
                return Err(Viol::new(format!("C09:honest-fails:{label}"), format!("{label} with an honest host and valid operands does not complete: {e}"), cj));
            }
            Ok(Info { nontrivial: Some(fp_str(&format!("{label}|{hint_class}|rejected|{}", cj))), classes: vec![format!("{label}:lie-rejected")], sample: Some(cj), ..Info::default() })
        }
    }
}

fn honest_script() -> Script {
    Script { stack_hint: None, node_hint: None, path: PathMode::Honest }
}

// ---- counting hints: exhaustive 0..=64 (+ a few large values) x operand classes ---------------------
pub fn check_counts(ctx: &Ctx) {
    let operands: Vec<u64> = vec![0, 1, 2, 3, 0x8000_0000, 0xFFFF_FFFF, 0xFFFF_FFFE, 0x7FFF_FFFF, 0x0001_0000, 0x0000_FFFF, 0x00FF_FF00, 0xF0F0_F0F0, 0x4000_0001];
    let mut items = vec![];
    for ins in ["u32clz", "u32ctz", "u32clo", "u32cto"] {
        for &a in &operands {
            for h in (0..=64u64).chain([65, 1 << 32, P - 1, 255]) {
                items.push((ins, a, Some(h)));
            }
            items.push((ins, a, None));
        }
    }
    ctx.run_list("count-hints", &items, |&(ins, a, hint)| {
        let a32 = a as u32;
        let want = match ins {
            "u32clz" => a32.leading_zeros(),
            "u32ctz" => a32.trailing_zeros(),
            "u32clo" => a32.leading_ones(),
            _ => a32.trailing_ones(),
        } as u64;
        let mut stack = vec![a];
        stack.extend(SENT);
        let script = Script { stack_hint: hint.map(|h| vec![h]), ..honest_script() };
        let cj = json!({"instruction": ins, "operand": a, "hint": hint});
        let r = run_with(&format!("begin {ins} end"), &stack, AdviceInputs::default(), script).map_err(|e| Viol::new("C09:setup", e, cj.clone()))?;
        let class = match hint {
            None => "honest".to_string(),
            Some(h) if h == want => "equal".to_string(),
            Some(h) if h < want => "below".to_string(),
            Some(h) if h <= 32 => "above".to_string(),
            _ => "out-of-range".to_string(),
        };
        judge(ins, &class, r, &[want], hint.is_none(), cj)
    });
}

pub fn check_ilog2(ctx: &Ctx) {
    let operands: Vec<u64> = vec![1, 2, 3, 4, 7, 8, 255, 256, 0xFFFF_FFFF, 1 << 32, (1 << 32) + 1, (1 << 40) + 1, 1 << 63, P - 1, (1 << 48) - 1, 0x8000_0000, 0xFFFF_FFFF_0000_0000];
    let mut items = vec![];
    for &a in &operands {
        for h in (0..=64u64).chain([65, 1 << 32, P - 1]) {
            items.push((a, Some(h)));
        }
        items.push((a, None));
    }
    ctx.run_list("ilog2-hints", &items, |&(a, hint)| {
        let want = 63 - a.leading_zeros() as u64;
        let mut stack = vec![a];
        stack.extend(SENT);
        let script = Script { stack_hint: hint.map(|h| vec![h]), ..honest_script() };
        let cj = json!({"instruction": "ilog2", "operand": a, "hint": hint});
        let r = run_with("begin ilog2 end", &stack, AdviceInputs::default(), script).map_err(|e| Viol::new("C09:setup", e, cj.clone()))?;
        let class = match hint {
            None => "honest",
            Some(h) if h == want => "equal",
            Some(h) if h < want => "below",
            _ => "above",
        };
        judge("ilog2", class, r, &[want], hint.is_none(), cj)
    });
}

// ---- ext2inv / ext2div / u64 division: generated operands and hints --------------------------------
pub fn check_field_hints(choices: &Vec<u16>) -> Out {
    let mut ch = Ch::new(choices);
    let which = ch.pick(5);
    let honest = ch.chance(1, 5);
    match which {
        0 | 1 => {
            // ext2inv [a1, a0] -> inverse ; ext2div [b1, b0, a1, a0] -> a / b
            let (b0, b1) = (ch.felt(), ch.felt().max(1));
            let (a0, a1) = (ch.felt(), ch.felt());
            let inv = fe::ext2_inv((b0, b1));
            let (ins, stack_ops, want) = if which == 0 {
                ("ext2inv", vec![b1, b0], vec![inv.1, inv.0])
            } else {
                let q = fe::ext2_mul((a0, a1), inv);
                ("ext2div", vec![b1, b0, a1, a0], vec![q.1, q.0])
            };
            let hint = if honest {
                None
            } else {
                Some(match ch.pick(8) {
                    0 => vec![inv.0, inv.1], // both orders: one of them is the honest hint
                    1 => vec![inv.1, inv.0],
                    2 => vec![fe::add(inv.1, 1), inv.0],
                    3 => vec![0, 0],
                    4 => vec![inv.1, fe::add(inv.0, 1)],
                    5 => vec![fe::add(inv.0, 1), inv.1],
                    6 => vec![inv.0, fe::add(inv.1, 1)],
                    _ => vec![ch.felt(), ch.felt()],
                })
            };
            let mut stack = stack_ops.clone();
            stack.extend(SENT);
            let cj = json!({"instruction": ins, "operands_top_first": stack_ops, "hint": hint});
            let r = run_with(&format!("begin {ins} end"), &stack, AdviceInputs::default(), Script { stack_hint: hint.clone(), ..honest_script() }).map_err(|e| Viol::new("C09:setup", e, cj.clone()))?;
            judge(ins, if honest { "honest" } else { "perturbed" }, r, &want, honest, cj)
        }
        _ => {
            // std::math::u64::{div, mod, divmod}
            let pickv = |ch: &mut Ch| -> u64 {
                match ch.pick(4) {
                    0 => [0u64, 1, 2, (1 << 32) - 1, 1 << 32, (1 << 32) + 1, u64::MAX, u64::MAX - 1, 1 << 63][ch.pick(9)],
                    1 => ch.u64() >> ch.pick(64),
                    _ => ch.u64(),
                }
            };
            let mut a = pickv(&mut ch);
            let b = pickv(&mut ch).max(1);
            // operand classes a uniformly drawn pair never hits: the dividend is an exact multiple
            // of the divisor (remainder 0: the hint "q - 1, r + b" then has r = b), or equal to it
            match ch.pick(5) {
                0 => {
                    let k = [1u64, 2, 3, 7, 1 << 16, (1 << 32) - 1, 1 << 32][ch.pick(7)];
                    a = b.checked_mul(k).unwrap_or(b);
                }
                1 => a = b,
                // dividend smaller than the divisor: the only class in which q*b + r can reach
                // a + 2^64 without q*b itself exceeding 64 bits
                2 => a = if b > 1 { ch.u64() % b } else { 0 },
                _ => {}
            }
            let (q, r) = (a / b, a % b);
            let name = ["div", "mod", "divmod"][ch.pick(3)];
            let sp = |v: u64| vec![v >> 32, v & 0xFFFF_FFFF];
            let want: Vec<u64> = match name {
                "div" => sp(q),
                "mod" => sp(r),
                _ => {
                    let mut v = sp(r);
                    v.extend(sp(q));
                    v
                }
            };
            // self check of the hint convention: one time in twelve the scripted host supplies the
            // correct quotient and remainder itself, which must behave exactly like the honest host
            let explicit_honest = !honest && ch.chance(1, 12);
            let hint = if honest {
                None
            } else if explicit_honest {
                Some(vec![q & 0xFFFF_FFFF, q >> 32, r & 0xFFFF_FFFF, r >> 32])
            } else {
                // in the order in which adv_push pops them: the honest injector pushes r_hi, r_lo,
                // q_hi, q_lo, so q_lo is popped first, then q_hi, r_lo, r_hi
                let (qh, ql, rh, rl) = (q >> 32, q & 0xFFFF_FFFF, r >> 32, r & 0xFFFF_FFFF);
                let pair = |q2: u64, r2: u64| vec![q2 & 0xFFFF_FFFF, q2 >> 32, r2 & 0xFFFF_FFFF, r2 >> 32];
                Some(match ch.pick(11) {
                    0 => vec![fe::add(ql, 1), qh, rl, rh],
                    1 => vec![ql, qh, fe::add(rl, 1), rh],
                    2 => vec![rl, rh, ql, qh],
                    3 => vec![qh, ql, rh, rl],
                    // q-1, r+b : satisfies a = q*b + r but r >= b
                    4 => pair(q.wrapping_sub(1), r.wrapping_add(b)),
                    5 => vec![ql + (1 << 32), qh, rl, rh], // limb >= 2^32
                    6 => vec![fe::add(ql, 1 << 32), fe::sub(qh, 1), rl, rh], // same 64-bit value, non-u32 limbs
                    7 => pair(0, a), // q = 0, r = a
                    8 if b >= 2 => {
                        // q*b + r = a + 2^64 with r < b and q < 2^64: right modulo 2^64 only
                        let t = a as u128 + (1u128 << 64);
                        pair((t / b as u128) as u64, (t % b as u128) as u64)
                    }
                    // q+1, r-b (mod 2^64)
                    9 => pair(q.wrapping_add(1), r.wrapping_sub(b)),
                    _ => vec![ch.felt(), ch.felt(), ch.felt(), ch.felt()],
                })
            };
            let mut stack = sp(b);
            stack.extend(sp(a));
            stack.extend(SENT);
            let cj = json!({"instruction": format!("u64::{name}"), "a": a, "b": b, "hint_pop_order": hint});
            let r = run_with(&format!("use.std::math::u64\nbegin exec.u64::{name} end"), &stack, AdviceInputs::default(), Script { stack_hint: hint, ..honest_script() }).map_err(|e| Viol::new("C09:setup", e, cj.clone()))?;
            if explicit_honest {
                // a failure here means the harness writes hints in the wrong order (its lies would
                // then be rejected for the wrong reason)
                return match r {
                    Res::Ok(out, _) if out[..want.len()] == want[..] => Ok(Info { classes: vec![format!("u64::{name}:scripted-correct-hint-accepted")], ..Info::default() }),
                    other => Err(Viol::new("C09:harness-hint-convention", format!("the scripted host supplied the correct quotient and remainder for u64::{name} and the procedure did not return the correct result: {}", match other { Res::Ok(o, _) => format!("{:?}", &o[..want.len()]), Res::NotCompleted(e) => e }), cj)),
                };
            }
            judge(&format!("u64::{name}"), if honest { "honest" } else { "perturbed" }, r, &want, honest, cj)
        }
    }
}

// ---- Merkle reads and updates ----------------------------------------------------------------------
pub fn check_merkle(choices: &Vec<u16>) -> Out {
    let mut ch = Ch::new(choices);
    let depth = 1 + ch.pick(4) as u8; // 2..16 leaves
    let n = 1usize << depth;
    let leaves: Vec<Word> = (0..n).map(|i| [Felt::new(ch.felt()), Felt::new(i as u64 + 1), Felt::new(ch.felt()), Felt::new(ch.felt())]).collect();
    let other: Vec<Word> = (0..n).map(|i| [Felt::new(ch.felt()), Felt::new(1000 + i as u64), Felt::new(7), Felt::new(ch.felt())]).collect();
    let t = MerkleTree::new(leaves.clone()).unwrap();
    let t2 = MerkleTree::new(other).unwrap();
    let mut store = MerkleStore::new();
    store.extend(t.inner_nodes());
    store.extend(t2.inner_nodes());
    let inputs = AdviceInputs::default().with_merkle_store(store.clone());
    let idx = ch.pick(n) as u64;
    // claimed depth: the leaf level or an inner level
    let d = if ch.chance(1, 4) && depth > 1 { 1 + ch.pick(depth as usize - 1) as u8 } else { depth };
    let idx_d = idx >> (depth - d);
    let root: Word = t.root().into();
    let node_at = |dd: u8, ii: u64| -> [u64; 4] {
        let w: Word = store.get_node(t.root(), vm_core::crypto::merkle::NodeIndex::new(dd, ii).unwrap()).unwrap().into();
        w.map(|f| f.as_int())
    };
    let true_node = node_at(d, idx_d);
    let w_top = |w: [u64; 4]| vec![w[3], w[2], w[1], w[0]];
    let root_top = w_top(root.map(|f| f.as_int()));
    let honest = ch.chance(1, 5);
    let path = if honest {
        PathMode::Honest
    } else {
        match ch.pick(8) {
            0 => PathMode::AlterSibling(ch.pick(8)),
            1 => PathMode::OtherIndex((idx_d + 1 + ch.pick(3) as u64) % (1u64 << d)),
            2 => PathMode::Shorter,
            3 => PathMode::Longer,
            4 => PathMode::Empty,
            5 => PathMode::Of(t2.root().into(), d, idx_d),
            6 if d > 1 => PathMode::Of(root, d - 1, idx_d >> 1),
            _ => PathMode::Honest,
        }
    };
    // an index that does not exist at the claimed depth, with a host that answers as if it were
    // the index reduced modulo 2^depth (node and path of a real position): no node lives there,
    // so nothing may complete
    if !honest && ch.chance(1, 5) {
        let bad = match ch.pick(5) {
            0 => idx_d + (1u64 << d),
            1 => idx_d + (1u64 << 32),
            2 => idx_d + (1u64 << 32) * (1 + ch.pick(1000) as u64),
            3 => idx_d + (1u64 << 63),
            _ => (1u64 << d) + ((ch.pick(4) as u64) << d),
        };
        let real = bad % (1u64 << d);
        let script = Script { stack_hint: None, node_hint: Some(node_at(d, real)), path: PathMode::Of(root, d, real) };
        let (ins, stack) = match ch.pick(3) {
            0 => {
                let mut st = vec![d as u64, bad];
                st.extend(root_top.clone());
                ("mtree_get", st)
            }
            1 => {
                let mut st = w_top(node_at(d, real));
                st.extend([d as u64, bad]);
                st.extend(root_top.clone());
                ("mtree_verify", st)
            }
            _ => {
                let mut st = vec![d as u64, bad];
                st.extend(root_top.clone());
                st.extend([5, 6, 7, 8]);
                ("mtree_set", st)
            }
        };
        let mut stack = stack;
        stack.extend(SENT);
        let cj = json!({"instruction": ins, "depth": d, "index": bad, "tree_depth": depth, "host_answers_for_index": real});
        let r = run_with(&format!("begin {ins} end"), &stack, inputs, script).map_err(|e| Viol::new("C09:setup", e, cj.clone()))?;
        return match r {
            Res::Ok(out, _) => Err(Viol::new(
                format!("C09:wrong-result-accepted:{ins}:index-out-of-range"),
                format!("{ins} at depth {d} completed for index {bad}, which does not exist at that depth (the host answered for index {real}); stack top {:?}", &out[..8.min(out.len())]),
                cj,
            )),
            Res::NotCompleted(_) => Ok(Info { nontrivial: Some(fp_str(&format!("{ins}|bad-index|{}", cj))), classes: vec![format!("{ins}:index-out-of-range-rejected")], sample: Some(cj), ..Info::default() }),
        };
    }
    let which = ch.pick(3);
    match which {
        0 => {
            // mtree_get: [d, i, R] -> [V, R]
            let node_hint = if honest {
                None
            } else {
                Some(match ch.pick(4) {
                    0 => true_node,
                    1 => node_at(d, (idx_d + 1) % (1u64 << d)),
                    2 if d > 1 => node_at(d - 1, idx_d >> 1),
                    _ => [ch.felt(), ch.felt(), ch.felt(), ch.felt()],
                })
            };
            let mut stack = vec![d as u64, idx_d];
            stack.extend(root_top.clone());
            stack.extend(SENT);
            let mut want = w_top(true_node);
            want.extend(root_top.clone());
            let cj = json!({"instruction": "mtree_get", "depth": d, "index": idx_d, "tree_depth": depth, "node_hint": node_hint, "path": format!("{:?}", path)});
            let r = run_with("begin mtree_get end", &stack, inputs, Script { stack_hint: None, node_hint, path }).map_err(|e| Viol::new("C09:setup", e, cj.clone()))?;
            judge("mtree_get", if honest { "honest" } else { "dishonest" }, r, &want, honest, cj)
        }
        1 => {
            // mtree_verify: [V, d, i, R] unchanged iff R opens to V at (d, i)
            let claim = if honest || ch.chance(1, 2) {
                true_node
            } else {
                match ch.pick(3) {
                    0 => node_at(d, (idx_d + 1) % (1u64 << d)),
                    1 if d > 1 => node_at(d - 1, idx_d >> 1),
                    _ => [ch.felt(), ch.felt(), ch.felt(), ch.felt()],
                }
            };
            // when the claim is a node of depth d-1, a dishonest host can supply that node's path
            let path = if !honest && d > 1 && claim == node_at(d - 1, idx_d >> 1) && claim != true_node { PathMode::Of(root, d - 1, idx_d >> 1) } else { path };
            let mut stack = w_top(claim);
            stack.extend([d as u64, idx_d]);
            stack.extend(root_top.clone());
            stack.extend(SENT);
            let cj = json!({"instruction": "mtree_verify", "depth": d, "index": idx_d, "tree_depth": depth, "claim_is_true": claim == true_node, "path": format!("{:?}", path)});
            let r = run_with("begin mtree_verify end", &stack, inputs, Script { stack_hint: None, node_hint: None, path }).map_err(|e| Viol::new("C09:setup", e, cj.clone()))?;
            if claim != true_node {
                // the statement is false: the instruction must not complete
                return match r {
                    Res::Ok(..) => Err(Viol::new("C09:wrong-result-accepted:mtree_verify", format!("mtree_verify accepted a node which the tree does not hold at depth {d}, index {idx_d}"), cj)),
                    Res::NotCompleted(_) => Ok(Info { nontrivial: Some(fp_str(&format!("verify-false|{:?}", cj["path"]))), classes: vec!["mtree_verify:false-claim-rejected".into()], sample: Some(cj), ..Info::default() }),
                };
            }
            let mut want = w_top(claim);
            want.extend([d as u64, idx_d]);
            want.extend(root_top.clone());
            judge("mtree_verify", if honest { "honest" } else { "dishonest" }, r, &want, honest, cj)
        }
        _ => {
            // mtree_set on a leaf: [d, i, R, V'] -> [V, R']
            let newv: Word = [Felt::new(ch.felt()), Felt::new(ch.felt()), Felt::new(5), Felt::new(ch.felt())];
            let mut leaves2 = leaves.clone();
            leaves2[idx as usize] = newv;
            let t3 = MerkleTree::new(leaves2).unwrap();
            let mut stack = vec![depth as u64, idx];
            stack.extend(root_top.clone());
            stack.extend(w_top(newv.map(|f| f.as_int())));
            stack.extend(SENT);
            let mut want = w_top(leaves[idx as usize].map(|f| f.as_int()));
            let r3: Word = t3.root().into();
            want.extend(w_top(r3.map(|f| f.as_int())));
            let cj = json!({"instruction": "mtree_set", "depth": depth, "index": idx, "path": format!("{:?}", path)});
            let r = run_with("begin mtree_set end", &stack, inputs, Script { stack_hint: None, node_hint: None, path }).map_err(|e| Viol::new("C09:setup", e, cj.clone()))?;
            judge("mtree_set", if honest { "honest" } else { "dishonest" }, r, &want, honest, cj)
        }
    }
}

/// adv_push.n / adv_loadw / adv_pipe deliver advice values in the documented order
pub fn check_order(choices: &Vec<u16>) -> Out {
    let mut ch = Ch::new(choices);
    let which = ch.pick(3);
    let adv: Vec<u64> = (0..24).map(|i| 1000 + i as u64 * 7 + ch.pick(5) as u64).collect();
    let (src, want): (String, Vec<u64>) = match which {
        0 => {
            let n = 1 + ch.pick(16);
            // "the first element is placed deepest": a,b,c,d -> [d,c,b,a]
            (format!("begin adv_push.{n} end"), adv[..n].iter().rev().copied().collect())
        }
        1 => ("begin padw adv_loadw end".into(), adv[..4].iter().rev().copied().collect()),
        _ => {
            // [C, B, A, a] -> [E, D, A, a+2], D = first word popped, E = second
            let mut w: Vec<u64> = adv[4..8].iter().rev().copied().collect();
            w.extend(adv[..4].iter().rev().copied());
            ("begin push.100 padw padw padw adv_pipe end".into(), w)
        }
    };
    let case = Case { src: src.clone(), stack: SENT.to_vec(), adv: adv.clone(), ..Case::default() };
    let cj = json!({"case": case.to_json()});
    let p = assemble_std(&src).map_err(|e| Viol::new("C09:setup", e, cj.clone()))?;
    match vm::run(&p, &case, ExecutionOptions::default()) {
        vm::Ran::Ok(t, _) => {
            let out = vm::outputs_top_first(&t);
            if out[..want.len()] != want[..] {
                return Err(Viol::new("C09:advice-order", format!("advice values arrive as {:?}, documented order {:?}", &out[..want.len()], want), cj));
            }
            Ok(Info { nontrivial: Some(fp_str(&src)), classes: vec![format!("order:{}", ["adv_push", "adv_loadw", "adv_pipe"][which])], ..Info::default() })
        }
        vm::Ran::Err(e, _) => Err(Viol::new("C09:advice-order-error", format!("{e}"), cj)),
        vm::Ran::Panic(pn) => Err(Viol::new("C09:advice-order-panic", pn, cj)),
    }
}

pub fn run(ctx: &Ctx) {
    *ctx.level.lock().unwrap() = "fault_enumeration".into();
    ctx.set_rule("a dishonest Host (wraps the in-memory advice provider; answers hint injectors with scripted values and Merkle-path requests with altered / foreign / shortened / lengthened / empty paths): u32clz/ctz/clo/cto on 13 operand classes x every hint 0..64 (+65, 2^32, p-1, 255), ilog2 on 17 operands x the same hints, ext2inv/ext2div and std::math::u64::{div,mod,divmod} with perturbed quotient/remainder/inverse hints (off by one, swapped, limbs >= 2^32, q-1/r+b, zero quotient), mtree_get/mtree_set/mtree_verify on trees of depth 1..4 with altered node hints and paths incl. nodes and paths of a neighbouring depth or another tree; oracle: if execution completes, the result equals the natively computed value and the stack below is untouched (an error or panic is 'does not complete'); with the honest host valid operands always succeed; adv_push/adv_loadw/adv_pipe deliver values in the documented order; non-trivial = the host actually lied; distinct by (instruction, hint class, outcome)");
    ctx.exhaustive.store(false, std::sync::atomic::Ordering::Relaxed);
    ctx.set_extra("exhaustive_subspace", json!("count hints 0..=64 x 13 operands x 4 instructions; ilog2 hints 0..=64 x 17 operands"));
    check_counts(ctx);
    check_ilog2(ctx);
    ctx.run("field-and-u64-hints", ctx.n(12_000, 1_500_000), || vec(any::<u16>(), 60..61), check_field_hints);
    ctx.run("merkle", ctx.n(8_000, 800_000), || vec(any::<u16>(), 400..401), check_merkle);
    ctx.run("advice-order", ctx.n(600, 30_000), || vec(any::<u16>(), 40..41), check_order);
}

pub fn replay(ctx: &Ctx, v: &serde_json::Value) {
    let c = &v["case"];
    let ins = c["instruction"].as_str().unwrap_or("");
    let out = (|| -> Out {
        if let (true, Some(a)) = (matches!(ins, "u32clz" | "u32ctz" | "u32clo" | "u32cto" | "ilog2"), c["operand"].as_u64()) {
            let hint = c["hint"].as_u64();
            let want = match ins {
                "u32clz" => (a as u32).leading_zeros() as u64,
                "u32ctz" => (a as u32).trailing_zeros() as u64,
                "u32clo" => (a as u32).leading_ones() as u64,
                "u32cto" => (a as u32).trailing_ones() as u64,
                _ => 63 - a.leading_zeros() as u64,
            };
            let mut stack = vec![a];
            stack.extend(SENT);
            let r = run_with(&format!("begin {ins} end"), &stack, AdviceInputs::default(), Script { stack_hint: hint.map(|h| vec![h]), ..honest_script() }).map_err(|e| Viol::new("C09:setup", e, c.clone()))?;
            return judge(ins, "replay", r, &[want], hint.is_none(), c.clone());
        }
        Err(Viol::new(v["signature"].as_str().unwrap_or("C09:replay"), "generated case: re-run `./check C09` with the same VERIF_SEED (the generator input is deterministic)", c.clone()))
    })();
    ctx.record("replay", out);
}
