//! C16 — standard-library integer arithmetic is exact.

use crate::engine::{fp_str, Ctx, Info, Out, Viol};
use crate::gen::Ch;
use crate::vm::{self, Assembled, Case, Ran};
use num_bigint::BigUint;
use processor::ExecutionOptions;
use proptest::collection::vec;
use proptest::prelude::*;
use serde_json::json;

const LIMBS: [u64; 6] = [0, 1, 1 << 16, 1 << 31, (1 << 32) - 1, 0x9E37_79B9];

thread_local! {
    static ASM: std::cell::RefCell<Option<assembly::Assembler>> = std::cell::RefCell::new(None);
}

/// assemble against the standard library with a per-thread assembler (loading the library is the
/// expensive part; C11 is the property about assembler instances being history-independent)
fn assemble_std(src: &str) -> Result<vm_core::Program, String> {
    ASM.with(|a| {
        let mut a = a.borrow_mut();
        if a.is_none() {
            *a = Some(assembly::Assembler::default().with_library(&stdlib::StdLibrary::default()).map_err(|e| format!("{e}"))?);
        }
        match vm::catch(|| a.as_ref().unwrap().compile(src).map_err(|e| format!("{e}"))) {
            Ok(r) => r,
            Err(p) => {
                *a = None;
                Err(format!("assembler panic: {p}"))
            }
        }
    })
}

#[derive(Clone, Debug)]
enum Want {
    Stack(Vec<u64>),
    Fail,
}

fn split(v: u64) -> (u64, u64) {
    (v >> 32, v & 0xFFFF_FFFF)
}

/// expected result (top first) of u64 procedure `name` on operands a, b (for unary ops only a;
/// for shifts b is the amount)
fn u64_oracle(name: &str, a: u64, b: u64) -> Option<Want> {
    let two = |v: u64| {
        let (h, l) = split(v);
        vec![h, l]
    };
    Some(match name {
        "overflowing_add" => {
            let (c, o) = a.overflowing_add(b);
            let mut v = vec![o as u64];
            v.extend(two(c));
            Want::Stack(v)
        }
        "wrapping_add" => Want::Stack(two(a.wrapping_add(b))),
        "wrapping_sub" => Want::Stack(two(a.wrapping_sub(b))),
        "overflowing_sub" => {
            let (c, o) = a.overflowing_sub(b);
            let mut v = vec![o as u64];
            v.extend(two(c));
            Want::Stack(v)
        }
        "wrapping_mul" => Want::Stack(two(a.wrapping_mul(b))),
        "overflowing_mul" => {
            let p = a as u128 * b as u128;
            let (hi, lo) = ((p >> 64) as u64, p as u64);
            let mut v = two(hi);
            v.extend(two(lo));
            Want::Stack(v)
        }
        "lt" => Want::Stack(vec![(a < b) as u64]),
        "gt" => Want::Stack(vec![(a > b) as u64]),
        "lte" => Want::Stack(vec![(a <= b) as u64]),
        "gte" => Want::Stack(vec![(a >= b) as u64]),
        "eq" => Want::Stack(vec![(a == b) as u64]),
        "neq" => Want::Stack(vec![(a != b) as u64]),
        "eqz" => Want::Stack(vec![(a == 0) as u64]),
        "min" => Want::Stack(two(a.min(b))),
        "max" => Want::Stack(two(a.max(b))),
        "div" => {
            if b == 0 {
                Want::Fail
            } else {
                Want::Stack(two(a / b))
            }
        }
        "mod" => {
            if b == 0 {
                Want::Fail
            } else {
                Want::Stack(two(a % b))
            }
        }
        "divmod" => {
            if b == 0 {
                Want::Fail
            } else {
                let mut v = two(a % b);
                v.extend(two(a / b));
                Want::Stack(v)
            }
        }
        "and" => Want::Stack(two(a & b)),
        "or" => Want::Stack(two(a | b)),
        "xor" => Want::Stack(two(a ^ b)),
        "shl" => {
            if b >= 64 {
                Want::Fail
            } else {
                Want::Stack(two(a << b))
            }
        }
        "shr" => {
            if b >= 64 {
                Want::Fail
            } else {
                Want::Stack(two(a >> b))
            }
        }
        // (the doc comment of rotl/rotr announces an error for amounts >= 64; the procedures mask
        // the amount instead. The property speaks of amounts 0..63: larger ones are not asserted.)
        "rotl" => {
            if b >= 64 {
                return None;
            } else {
                Want::Stack(two(a.rotate_left(b as u32)))
            }
        }
        "rotr" => {
            if b >= 64 {
                return None;
            } else {
                Want::Stack(two(a.rotate_right(b as u32)))
            }
        }
        "clz" => Want::Stack(vec![a.leading_zeros() as u64]),
        "ctz" => Want::Stack(vec![a.trailing_zeros() as u64]),
        "clo" => Want::Stack(vec![a.leading_ones() as u64]),
        "cto" => Want::Stack(vec![a.trailing_ones() as u64]),
        _ => return None,
    })
}

fn arity(name: &str) -> u8 {
    match name {
        "eqz" | "clz" | "ctz" | "clo" | "cto" => 1,
        "shl" | "shr" | "rotl" | "rotr" => 3, // value + shift amount
        _ => 2,
    }
}

const SENT: [u64; 8] = [0xAAAA_0001, 0xBBBB_0002, 0xCCCC_0003, 0xDDDD_0004, 0xEEEE_0005, 0xFFFF_0006, 0x1111_0007, 0x2222_0008];

pub fn run_u64(name: &str, a: u64, b: u64, deep: bool) -> Out {
    let Some(want) = u64_oracle(name, a, b) else { return Ok(Info { classes: vec![format!("not-asserted:{name}")], ..Info::default() }) };
    let mut stack: Vec<u64> = vec![];
    match arity(name) {
        1 => stack.extend([a >> 32, a & 0xFFFF_FFFF]),
        3 => stack.extend([b, a >> 32, a & 0xFFFF_FFFF]),
        _ => stack.extend([b >> 32, b & 0xFFFF_FFFF, a >> 32, a & 0xFFFF_FFFF]),
    }
    let nops = stack.len();
    stack.extend(SENT);
    if deep {
        // push the sentinels beyond position 15
        stack.extend((0..12).map(|i| 0x5000_0000 + i as u64));
    }
    let src = format!("use.std::math::u64\nbegin exec.u64::{name} end");
    let case = Case { src: src.clone(), use_stdlib: true, stack: stack.clone(), ..Case::default() };
    let cj = || json!({"proc": format!("u64::{name}"), "a": a, "b": b, "deep": deep, "stack_top_first": stack});
    let program = assemble_std(&src).map_err(|e| Viol::new("C16:asm", e, cj()))?;
    match (vm::run(&program, &case, ExecutionOptions::default()), want) {
        (Ran::Panic(p), _) => Err(Viol::new(format!("C16:panic:u64::{name}"), p, cj())),
        (Ran::Ok(t, _), Want::Fail) => Err(Viol::new(format!("C16:missing-failure:u64::{name}"), format!("u64::{name} must fail on these operands but returned {:?}", &vm::outputs_top_first(&t)[..4]), cj())),
        (Ran::Err(e, _), Want::Stack(_)) => Err(Viol::new(format!("C16:unexpected-error:u64::{name}"), format!("{e}"), cj())),
        (Ran::Err(_, _), Want::Fail) => Ok(Info { nontrivial: Some(fp_str(&format!("{name}|fail|{a}|{b}"))), classes: vec![format!("u64::{name}"), "fails".into()], ..Info::default() }),
        (Ran::Ok(t, _), Want::Stack(w)) => {
            let mut expect = w.clone();
            expect.extend_from_slice(&stack[nops..]);
            while expect.len() < 16 {
                expect.push(0);
            }
            let got = strip_zeros(vm::outputs_top_first(&t));
            let expect = strip_zeros(expect);
            if got != expect {
                let pos = got.iter().zip(expect.iter()).position(|(x, y)| x != y).unwrap_or(got.len().min(expect.len()));
                let what = if pos < w.len() { "result" } else { "rest-of-stack" };
                return Err(Viol::new(format!("C16:wrong-{what}:u64::{name}"), format!("u64::{name}({a}, {b}) -> {:?}, expected {:?} (first difference at position {pos})", &got[..got.len().min(8)], &expect[..expect.len().min(8)]), cj()));
            }
            let class = |v: u64| LIMBS.iter().position(|l| *l == v).map(|i| i as u64).unwrap_or(9);
            let key = format!("{name}|{}{}{}{}", class(a >> 32), class(a & 0xFFFF_FFFF), class(b >> 32), class(b & 0xFFFF_FFFF));
            let boundary = [a >> 32, a & 0xFFFF_FFFF, b >> 32, b & 0xFFFF_FFFF].iter().any(|l| LIMBS[..5].contains(l));
            Ok(Info {
                nontrivial: if boundary { Some(fp_str(&key) ^ (a.wrapping_mul(31) ^ b) % 4) } else { None },
                classes: vec![format!("u64::{name}"), if deep { "deep-stack".into() } else { "depth16".into() }],
                sample: if a % 97 == 3 { Some(json!({"proc": format!("u64::{name}"), "a": a, "b": b, "result_top_first": w})) } else { None },
                ..Info::default()
            })
        }
    }
}

/// A procedure that consumes items while fewer than 16 + k are on the stack and then produces
/// items leaves the zeros that were shifted in at the bottom (u256::mul_unsafe on a stack of depth
/// 24 ends at depth 24 with eight zeros at the bottom). Zeros at the bottom beyond position 15 are
/// not a change to the rest of the stack: compare up to them. The sentinels are non-zero.
fn strip_zeros(mut v: Vec<u64>) -> Vec<u64> {
    while v.len() > 16 && v.last() == Some(&0) {
        v.pop();
    }
    v
}

fn big(limbs_lo_first: &[u64]) -> BigUint {
    let mut v = BigUint::from(0u32);
    for (i, l) in limbs_lo_first.iter().enumerate() {
        v += BigUint::from(*l) << (32 * i);
    }
    v
}
fn limbs_of(v: &BigUint) -> Vec<u64> {
    let m = BigUint::from(1u64 << 32);
    (0..8usize)
        .map(|i| {
            let x: BigUint = (v >> (32 * i)) % &m;
            x.to_u64_digits().first().copied().unwrap_or(0)
        })
        .collect()
}

pub fn run_u256(name: &str, a: &[u64; 8], b: &[u64; 8]) -> Out {
    // limbs are given least significant first; the stack holds [b7..b0, a7..a0] with b7 on top
    let (ba, bb) = (big(a), big(b));
    let modulus = BigUint::from(1u32) << 256;
    let unary = name == "iszero_unsafe";
    let want: Vec<u64> = match name {
        "add_unsafe" => limbs_of(&((&ba + &bb) % &modulus)).into_iter().rev().collect(),
        "sub_unsafe" => limbs_of(&((&ba + &modulus - &bb) % &modulus)).into_iter().rev().collect(),
        "mul_unsafe" => limbs_of(&((&ba * &bb) % &modulus)).into_iter().rev().collect(),
        "and" => (0..8).rev().map(|i| a[i] & b[i]).collect(),
        "or" => (0..8).rev().map(|i| a[i] | b[i]).collect(),
        "xor" => (0..8).rev().map(|i| a[i] ^ b[i]).collect(),
        "eq_unsafe" => vec![(a == b) as u64],
        "iszero_unsafe" => vec![(a.iter().all(|l| *l == 0)) as u64],
        _ => return Ok(Info { classes: vec![format!("unmapped:u256::{name}")], ..Info::default() }),
    };
    let mut stack: Vec<u64> = vec![];
    if !unary {
        stack.extend(b.iter().rev());
    }
    stack.extend(a.iter().rev());
    let nops = stack.len();
    stack.extend(SENT);
    let src = format!("use.std::math::u256\nbegin exec.u256::{name} end");
    let case = Case { src: src.clone(), use_stdlib: true, stack: stack.clone(), ..Case::default() };
    let cj = || json!({"proc": format!("u256::{name}"), "a_lo_first": a, "b_lo_first": b});
    let program = assemble_std(&src).map_err(|e| Viol::new("C16:asm", e, cj()))?;
    match vm::run(&program, &case, ExecutionOptions::default()) {
        Ran::Panic(p) => Err(Viol::new(format!("C16:panic:u256::{name}"), p, cj())),
        Ran::Err(e, _) => Err(Viol::new(format!("C16:unexpected-error:u256::{name}"), format!("{e}"), cj())),
        Ran::Ok(t, _) => {
            let mut expect = want.clone();
            expect.extend_from_slice(&stack[nops..]);
            while expect.len() < 16 {
                expect.push(0);
            }
            let got = strip_zeros(vm::outputs_top_first(&t));
            let expect = strip_zeros(expect);
            if got != expect {
                let pos = got.iter().zip(expect.iter()).position(|(x, y)| x != y).unwrap_or(got.len().min(expect.len()));
                let what = if pos < want.len() { "result" } else { "rest-of-stack" };
                return Err(Viol::new(format!("C16:wrong-{what}:u256::{name}"), format!("u256::{name}: got {:?} (depth {}), expected {:?} (depth {})", &got[..got.len().min(10)], got.len(), &expect[..expect.len().min(10)], expect.len()), cj()));
            }
            let boundary = a.iter().chain(b.iter()).any(|l| LIMBS[..5].contains(l));
            Ok(Info {
                nontrivial: if boundary { Some(fp_str(&format!("{name}{:?}{:?}", a, b))) } else { None },
                classes: vec![format!("u256::{name}")],
                sample: if a[0] % 7 == 1 { Some(cj()) } else { None },
                ..Info::default()
            })
        }
    }
}

fn exports(file: &str) -> Vec<String> {
    let txt = std::fs::read_to_string(format!("/repo/stdlib/asm/math/{file}.masm")).unwrap_or_default();
    txt.lines().filter_map(|l| l.strip_prefix("export.")).map(|l| l.split('.').next().unwrap().trim().to_string()).collect()
}

pub fn run(ctx: &Ctx) {
    let u64_names = exports("u64");
    let u256_names = exports("u256");
    ctx.set_rule("for every procedure exported by stdlib/asm/math/u64.masm and u256.masm (list read from the files): operand limbs from {0, 1, 2^16, 2^31, 2^32-1, a random constant} in all 6^4 combinations for the binary u64 procedures, shift amounts 0..63 exhaustively and >= 64, zero divisors, random operands; eight sentinel elements below the operands, half of the random cases with a stack deeper than 16; oracle: native u64/u128 arithmetic and num-bigint for 256 bits; result limbs exact, everything below untouched, dividing procedures fail on zero, shifts fail on amounts >= 64; non-trivial = a boundary limb; distinct by (procedure, limb classes)");
    let mapped: Vec<&String> = u64_names.iter().filter(|n| u64_oracle(n, 1, 1).is_some()).collect();
    ctx.set_extra("u64_exports", json!(u64_names));
    ctx.set_extra("u64_exports_without_oracle", json!(u64_names.iter().filter(|n| u64_oracle(n, 1, 1).is_none()).collect::<Vec<_>>()));
    ctx.set_extra("u256_exports", json!(u256_names));
    // exhaustive limb grid
    let mut grid: Vec<(String, u64, u64)> = vec![];
    for n in &mapped {
        match arity(n) {
            1 => {
                for h in LIMBS {
                    for l in LIMBS {
                        grid.push(((*n).clone(), (h << 32) | l, 0));
                    }
                }
                for sh in 0..64 {
                    grid.push(((*n).clone(), 1u64 << sh, 0));
                    grid.push(((*n).clone(), !(1u64 << sh), 0));
                    grid.push(((*n).clone(), u64::MAX << sh, 0));
                    grid.push(((*n).clone(), u64::MAX >> sh, 0));
                }
            }
            3 => {
                for h in LIMBS {
                    for l in LIMBS {
                        for sh in 0..64u64 {
                            grid.push(((*n).clone(), (h << 32) | l, sh));
                        }
                        for sh in [64u64, 65, 255, 1 << 32] {
                            grid.push(((*n).clone(), (h << 32) | l, sh));
                        }
                    }
                }
            }
            _ => {
                for ah in LIMBS {
                    for al in LIMBS {
                        for bh in LIMBS {
                            for bl in LIMBS {
                                grid.push(((*n).clone(), (ah << 32) | al, (bh << 32) | bl));
                            }
                        }
                    }
                }
            }
        }
    }
    ctx.run_list("u64-grid", &grid, |(n, a, b)| run_u64(n, *a, *b, false));
    let names: Vec<String> = mapped.iter().map(|s| (*s).clone()).collect();
    let names2 = names.clone();
    ctx.run("u64-random", ctx.n(40_000, 3_000_000), || vec(any::<u16>(), 12..13), move |c| {
        let mut ch = Ch::new(c);
        let n = &names2[ch.pick(names2.len())];
        let pick = |ch: &mut Ch| -> u64 {
            match ch.pick(3) {
                0 => ch.u64(),
                1 => (LIMBS[ch.pick(6)] << 32) | LIMBS[ch.pick(6)],
                _ => ch.u64() >> ch.pick(64),
            }
        };
        let a = pick(&mut ch);
        let b = if arity(n) == 3 { ch.pick(70) as u64 } else { pick(&mut ch) };
        run_u64(n, a, b, ch.chance(1, 2))
    });
    let u256n = u256_names.clone();
    ctx.run("u256-random", ctx.n(8_000, 600_000), || vec(any::<u16>(), 80..81), move |c| {
        let mut ch = Ch::new(c);
        let n = &u256n[ch.pick(u256n.len())];
        let mut a = [0u64; 8];
        let mut b = [0u64; 8];
        let mode = ch.pick(4);
        for i in 0..8 {
            a[i] = if mode == 0 { LIMBS[ch.pick(5)] } else if ch.chance(1, 3) { LIMBS[ch.pick(6)] } else { ch.u64() & 0xFFFF_FFFF };
            b[i] = if mode == 1 { a[i] } else if ch.chance(1, 3) { LIMBS[ch.pick(6)] } else { ch.u64() & 0xFFFF_FFFF };
        }
        run_u256(n, &a, &b)
    });
}

pub fn replay(ctx: &Ctx, v: &serde_json::Value) {
    let c = &v["case"];
    let name = c["proc"].as_str().unwrap_or("");
    let out = if let Some(n) = name.strip_prefix("u64::") {
        run_u64(n, c["a"].as_u64().unwrap_or(0), c["b"].as_u64().unwrap_or(0), c["deep"].as_bool().unwrap_or(false))
    } else if let Some(n) = name.strip_prefix("u256::") {
        let arr = |x: &serde_json::Value| -> [u64; 8] {
            let v: Vec<u64> = x.as_array().map(|a| a.iter().map(|e| e.as_u64().unwrap_or(0)).collect()).unwrap_or(vec![0; 8]);
            [v[0], v[1], v[2], v[3], v[4], v[5], v[6], v[7]]
        };
        run_u256(n, &arr(&c["a_lo_first"]), &arr(&c["b_lo_first"]))
    } else {
        Ok(Info::default())
    };
    ctx.record("replay", out);
    let _ = Assembled::Err(String::new());
}
