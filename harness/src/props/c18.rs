//! C18 — standard-library memory, stack and collection utilities keep their contracts.

use crate::engine::{fp_str, Ctx, Info, Out, Viol};
use crate::gen::Ch;
use crate::props::c07::final_memory;
use crate::vm::{self, Case, Ran};
use processor::ExecutionOptions;
use proptest::collection::vec;
use proptest::prelude::*;
use serde_json::json;
use std::collections::BTreeMap;
use vm_core::crypto::hash::{Rpo256, RpoDigest};
use vm_core::crypto::merkle::{Mmr, Smt};
use vm_core::{Felt, StarkField};

thread_local! {
    static ASM: std::cell::RefCell<Option<assembly::Assembler>> = std::cell::RefCell::new(None);
}
fn assemble_std(src: &str) -> Result<vm_core::Program, String> {
    ASM.with(|a| {
        let mut a = a.borrow_mut();
        if a.is_none() {
            *a = Some(assembly::Assembler::default().with_library(&stdlib::StdLibrary::default()).map_err(|e| format!("{e}"))?);
        }
        match vm::catch(|| a.as_ref().unwrap().compile(src).map_err(|e| format!("{e}"))) {
            Ok(r) => r,
            Err(p) => {
                *a = None;
                Err(format!("assembler panic: {p}"))
            }
        }
    })
}

fn strip_zeros(mut v: Vec<u64>) -> Vec<u64> {
    while v.len() > 16 && v.last() == Some(&0) {
        v.pop();
    }
    v
}

enum Res {
    Ok(Vec<u64>, BTreeMap<u64, [u64; 4]>),
    Err(String),
}

fn exec(case: &Case, sig: &str) -> Result<Res, Viol> {
    let cj = || json!({"case": case.to_json()});
    let program = assemble_std(&case.src).map_err(|e| Viol::new("C18:asm", e, cj()))?;
    match vm::run(&program, case, ExecutionOptions::default()) {
        Ran::Panic(p) => Err(Viol::new(format!("C18:panic:{sig}"), p, cj())),
        Ran::Err(e, _) => Ok(Res::Err(format!("{:?}", e))),
        Ran::Ok(t, _) => {
            let mem = final_memory(case, &program, &[0]).map_err(|e| Viol::new("C18:mem", e, cj()))?;
            Ok(Res::Ok(vm::outputs_top_first(&t), mem.into_iter().map(|((_, a), w)| (a, w)).collect()))
        }
    }
}

// ---- truncate_stack ----------------------------------------------------------------------------
pub fn check_truncate(choices: &Vec<u16>) -> Out {
    let mut ch = Ch::new(choices);
    let depth = 16 + ch.pick(65);
    let stack: Vec<u64> = (0..depth).map(|_| if ch.chance(1, 5) { 0 } else { ch.felt() }).collect();
    let extra = ch.pick(4);
    let mut src = String::from("use.std::sys\nbegin ");
    let mut model = stack.clone();
    for i in 0..extra {
        src.push_str(&format!("push.{} ", 900 + i));
        model.insert(0, 900 + i as u64);
    }
    src.push_str("exec.sys::truncate_stack end");
    let case = Case { src, use_stdlib: true, stack: stack.clone(), ..Case::default() };
    let cj = || json!({"case": case.to_json()});
    match exec(&case, "truncate_stack")? {
        Res::Err(e) => Err(Viol::new("C18:truncate-error", e, cj())),
        Res::Ok(out, _) => {
            let want: Vec<u64> = model[..16].to_vec();
            if out != want {
                return Err(Viol::new("C18:truncate-stack", format!("truncate_stack at depth {}: got {:?} (depth {}), expected the original top 16 {:?}", model.len(), out, out.len(), want), cj()));
            }
            Ok(Info { nontrivial: if model.len() > 16 { Some(fp_str(&format!("{:?}", model))) } else { None }, classes: vec!["truncate_stack".into(), format!("depth~{}", model.len() / 8 * 8)], sample: Some(json!({"depth": model.len()})), ..Info::default() })
        }
    }
}

// ---- memcopy ---------------------------------------------------------------------------------------
pub fn check_memcopy(choices: &Vec<u16>) -> Out {
    let mut ch = Ch::new(choices);
    let n = ch.pick(41) as u64;
    let read = [0u64, 100, 1000, (1 << 31) + 17][ch.pick(4)];
    let write = match ch.pick(6) {
        0 => read,
        1 => read + n,
        2 => read + 1 + ch.pick(n.max(1) as usize) as u64,
        3 => (read + 500).saturating_sub(0),
        4 => read.saturating_sub(1 + ch.pick(n.max(1) as usize) as u64),
        _ => read + 64,
    };
    let mut mem: BTreeMap<u64, [u64; 4]> = BTreeMap::new();
    let mut src = String::from("use.std::mem\nbegin\n");
    for i in 0..n + 3 {
        let w = [ch.felt(), ch.felt(), ch.felt(), ch.felt()];
        mem.insert(read + i, w);
        src.push_str(&format!("push.{}.{}.{}.{} mem_storew.{} dropw\n", w[0], w[1], w[2], w[3], read + i));
    }
    // a few words in the target range that must be overwritten / left alone
    for a in [write + n, write + n + 1] {
        if !mem.contains_key(&a) {
            let w = [7, 7, 7, a % 1000];
            mem.insert(a, w);
            src.push_str(&format!("push.{}.{}.{}.{} mem_storew.{} dropw\n", w[0], w[1], w[2], w[3], a));
        }
    }
    src.push_str(&format!("push.{write} push.{read} push.{n} exec.mem::memcopy end"));
    let sent: Vec<u64> = (0..6).map(|i| 0xABC0_0000 + i).collect();
    let case = Case { src, use_stdlib: true, stack: sent.clone(), ..Case::default() };
    let cj = || json!({"case": case.to_json(), "n": n, "read_ptr": read, "write_ptr": write});
    // model: word by word, ascending
    let mut want = mem.clone();
    for i in 0..n {
        let w = want.get(&(read + i)).copied().unwrap_or([0; 4]);
        want.insert(write + i, w);
    }
    match exec(&case, "memcopy")? {
        Res::Err(e) => Err(Viol::new("C18:memcopy-error", e, cj())),
        Res::Ok(out, got) => {
            let mut ws = sent.clone();
            while ws.len() < 16 {
                ws.push(0);
            }
            if strip_zeros(out.clone()) != ws {
                return Err(Viol::new("C18:memcopy-stack", format!("memcopy left {:?} on the stack", &out[..8]), cj()));
            }
            for (a, w) in &want {
                let g = got.get(a).copied().unwrap_or([0; 4]);
                if g != *w {
                    return Err(Viol::new("C18:memcopy-memory", format!("memcopy(n={n}, {read} -> {write}): memory[{a}] = {:?}, expected {:?}", g, w), cj()));
                }
            }
            for (a, g) in &got {
                // locals of the procedure live at 2^30..; everything else must be in the model
                if *a < (1 << 30) - 1 || *a > (1 << 30) + 64 {
                    if !want.contains_key(a) && *g != [0; 4] {
                        return Err(Viol::new("C18:memcopy-stray-write", format!("memcopy wrote {:?} to address {a}", g), cj()));
                    }
                }
            }
            let overlap = write < read + n && read < write + n && write != read;
            Ok(Info {
                nontrivial: if n >= 1 { Some(fp_str(&format!("{n}|{read}|{write}"))) } else { None },
                classes: vec!["memcopy".into(), if overlap { "overlap".into() } else if n == 0 { "n=0".into() } else { "disjoint".into() }],
                sample: Some(json!({"n": n, "read_ptr": read, "write_ptr": write})),
                ..Info::default()
            })
        }
    }
}

// ---- pipe_* ----------------------------------------------------------------------------------------
fn digest_top_first(elems: &[u64]) -> Vec<u64> {
    let d: [Felt; 4] = Rpo256::hash_elements(&elems.iter().map(|e| Felt::new(*e)).collect::<Vec<_>>()).into();
    d.iter().rev().map(|f| f.as_int()).collect()
}

pub fn check_pipe(choices: &Vec<u16>) -> Out {
    let mut ch = Ch::new(choices);
    let which = ch.pick(3);
    let mut n = ch.pick(34) as u64;
    if which == 2 {
        n = (n / 2 * 2).max(2);
    }
    let ptr = [0u64, 10, 1000, 1 << 20][ch.pick(4)];
    let data: Vec<u64> = (0..n * 4).map(|_| ch.felt()).collect();
    let sent: Vec<u64> = (0..5).map(|i| 0xFEED_0000 + i).collect();
    let good = ch.chance(3, 4);
    let (src, stack, label) = match which {
        0 => (format!("use.std::mem\nbegin push.{ptr} push.{n} exec.mem::pipe_words_to_memory end"), sent.clone(), "pipe_words_to_memory"),
        1 => {
            let mut com = digest_top_first(&data);
            if !good {
                com[ch.pick(4)] ^= 1;
            }
            // [num_words, write_ptr, COM]: COM below, given as stack inputs (top first = digest order)
            let mut st = com.clone();
            st.extend(sent.clone());
            (format!("use.std::mem\nbegin push.{ptr} push.{n} exec.mem::pipe_preimage_to_memory end"), st, "pipe_preimage_to_memory")
        }
        _ => (
            format!("use.std::mem\nbegin push.{} push.{ptr} padw padw padw exec.mem::pipe_double_words_to_memory end", ptr + n),
            sent.clone(),
            "pipe_double_words_to_memory",
        ),
    };
    let case = Case { src, use_stdlib: true, stack, adv: data.clone(), ..Case::default() };
    let cj = || json!({"case": case.to_json(), "proc": label, "num_words": n, "write_ptr": ptr});
    let r = exec(&case, label)?;
    let want_mem: BTreeMap<u64, [u64; 4]> = data.chunks(4).enumerate().map(|(i, w)| (ptr + i as u64, [w[0], w[1], w[2], w[3]])).collect();
    match (which, r) {
        (1, Res::Err(_)) if !good => Ok(Info { nontrivial: Some(fp_str(&format!("bad{n}{ptr}"))), classes: vec![format!("{label}:wrong-commitment-rejected")], ..Info::default() }),
        (1, Res::Ok(..)) if !good => Err(Viol::new("C18:pipe-preimage-accepted", "pipe_preimage_to_memory accepted a preimage that does not match the commitment", cj())),
        (_, Res::Err(e)) => Err(Viol::new(format!("C18:pipe-error:{label}"), e, cj())),
        (_, Res::Ok(out, got)) => {
            for (a, w) in &want_mem {
                if got.get(a).copied().unwrap_or([0; 4]) != *w {
                    return Err(Viol::new(format!("C18:pipe-memory:{label}"), format!("memory[{a}] = {:?}, expected {:?}", got.get(a), w), cj()));
                }
            }
            let mut want_stack: Vec<u64> = match which {
                0 => {
                    let mut v = digest_top_first(&data);
                    v.push(ptr + n);
                    v
                }
                1 => vec![ptr + n],
                _ => vec![],
            };
            if which == 2 {
                // [C', B', A', write_ptr']: B' is the digest of the data absorbed into an empty state
                let d = digest_top_first(&data);
                if out[4..8] != d[..] {
                    return Err(Viol::new("C18:pipe-double-digest", format!("hasher state word B' = {:?}, expected the RPO digest {:?}", &out[4..8], d), cj()));
                }
                if out[12] != ptr + n {
                    return Err(Viol::new("C18:pipe-double-ptr", format!("write_ptr' = {}, expected {}", out[12], ptr + n), cj()));
                }
                if strip_zeros(out[13..].to_vec())[..sent.len()] != sent[..] {
                    return Err(Viol::new("C18:pipe-rest-of-stack", "elements below the arguments changed", cj()));
                }
            } else {
                want_stack.extend(sent.clone());
                while want_stack.len() < 16 {
                    want_stack.push(0);
                }
                if strip_zeros(out.clone()) != strip_zeros(want_stack.clone()) {
                    return Err(Viol::new(format!("C18:pipe-stack:{label}"), format!("final stack {:?}, expected {:?}", &out[..10], &want_stack[..10]), cj()));
                }
            }
            Ok(Info {
                nontrivial: Some(fp_str(&format!("{label}{n}{ptr}{:?}", &data[..data.len().min(4)]))),
                classes: vec![label.to_string(), if n % 2 == 0 { "even".into() } else { "odd".into() }],
                sample: Some(json!({"proc": label, "num_words": n, "write_ptr": ptr})),
                ..Info::default()
            })
        }
    }
}

// ---- SMT histories ---------------------------------------------------------------------------------
fn w_top_first(w: [Felt; 4]) -> String {
    // push.a.b.c.d leaves d on top: a word [w0,w1,w2,w3] has w3 on top
    format!("push.{}.{}.{}.{}", w[0].as_int(), w[1].as_int(), w[2].as_int(), w[3].as_int())
}

pub fn check_smt(choices: &Vec<u16>) -> Out {
    let mut ch = Ch::new(choices);
    // a pool of keys with pairwise different most significant elements (multi-key leaves are
    // documented as unimplemented)
    let nkeys = 2 + ch.pick(7);
    let mut keys: Vec<[Felt; 4]> = (0..nkeys).map(|i| [Felt::new(ch.felt()), Felt::new(ch.felt()), Felt::new(ch.felt()), Felt::new(1000 * (i as u64 + 1) + ch.pick(999) as u64)]).collect();
    // the lower elements of a key sometimes repeat the leaf index (most significant element) of
    // another key: a procedure that takes the leaf index from the wrong element then lands on an
    // occupied leaf instead of an empty one
    for i in 0..nkeys {
        if ch.chance(1, 2) {
            let j = ch.pick(nkeys);
            let e = ch.pick(3);
            keys[i][e] = keys[j][3];
        }
    }
    let mut smt = Smt::new();
    let npre = ch.pick(4);
    let mut entries: Vec<([u64; 4], [u64; 4])> = vec![];
    for i in 0..npre.min(nkeys) {
        let v = [Felt::new(ch.felt().max(1)), Felt::new(ch.felt()), Felt::new(ch.felt()), Felt::new(ch.felt())];
        smt.insert(keys[i].into(), v);
        entries.push((keys[i].map(|f| f.as_int()), v.map(|f| f.as_int())));
    }
    let root0: [Felt; 4] = smt.root().into();
    let steps = 1 + ch.pick(25);
    let mut src = String::from("use.std::collections::smt\nbegin\n");
    let mut shape = String::new();
    for s in 0..steps {
        let k = keys[ch.pick(nkeys)];
        if ch.chance(2, 5) {
            // get: [K, R] -> [V, R]
            let v = smt.get_value(&k.into());
            src.push_str(&format!("{} exec.smt::get {} assert_eqw.err={}\n", w_top_first(k), w_top_first(v), 100 + s));
            shape.push('g');
        } else {
            let v = match ch.pick(4) {
                0 => [Felt::new(0); 4], // removal
                _ => [Felt::new(ch.felt().max(1)), Felt::new(ch.felt()), Felt::new(ch.felt()), Felt::new(ch.felt())],
            };
            let had = smt.get_value(&k.into()) != [Felt::new(0); 4];
            let old = smt.insert(k.into(), v);
            // set: [V, K, R] -> [V_old, R_new]
            src.push_str(&format!("{} {} exec.smt::set {} assert_eqw.err={}\n", w_top_first(k), w_top_first(v), w_top_first(old), 100 + s));
            shape.push(match (had, v == [Felt::new(0); 4]) {
                (false, false) => 'i',
                (true, false) => 'u',
                (true, true) => 'r',
                (false, true) => 'e',
            });
        }
    }
    // last step, sometimes: look up a key that was never inserted but shares its most significant
    // element - hence its leaf - with a key that is present (smt::get documents "if no values had
    // been previously inserted under the specified key, an empty word is returned" and lists the
    // single-pair leaf as supported)
    let mut colliding_get = false;
    if ch.chance(1, 4) {
        let present: Vec<[Felt; 4]> = keys.iter().copied().filter(|k| smt.get_value(&(*k).into()) != [Felt::new(0); 4]).collect();
        if !present.is_empty() {
            let base = present[ch.pick(present.len())];
            let probe = [Felt::new(ch.felt()), Felt::new(ch.felt()), base[2] + Felt::new(1), base[3]];
            if ch.chance(2, 3) {
                let v = smt.get_value(&probe.into());
                src.push_str(&format!("{} exec.smt::get {} assert_eqw.err={}\n", w_top_first(probe), w_top_first(v), 100 + steps));
                shape.push('c');
            } else {
                // removing it: "the new state of the tree is guaranteed to be equivalent to the
                // state as if the updated value was never inserted"
                let zero = [Felt::new(0); 4];
                let old = smt.insert(probe.into(), zero);
                src.push_str(&format!("{} {} exec.smt::set {} assert_eqw.err={}\n", w_top_first(probe), w_top_first(zero), w_top_first(old), 100 + steps));
                shape.push('d');
            }
            colliding_get = true;
        }
    }
    src.push_str("end");
    let sent: Vec<u64> = vec![0x51, 0x52, 0x53];
    let mut stack: Vec<u64> = root0.iter().rev().map(|f| f.as_int()).collect();
    stack.extend(sent.clone());
    let case = Case { src, use_stdlib: true, stack, smt: Some(entries), ..Case::default() };
    let cj = || json!({"case": case.to_json(), "history": shape});
    match exec(&case, "smt")? {
        Res::Err(e) => {
            let step = e.split("err_code: ").nth(1).and_then(|s| s.split(|c: char| !c.is_ascii_digit()).next()).unwrap_or("?").to_string();
            // an assertion of the library itself (code 0) in a history whose only unusual step is the
            // final look-up of an absent key in an occupied leaf
            if colliding_get && (step == "0" || step == "?") {
                let which = if shape.ends_with('c') { "get" } else { "set-empty" };
                return Err(Viol::new(
                    format!("C18:smt-{which}:absent-key-in-occupied-leaf:does-not-complete"),
                    format!("smt::{which} of a key that was never inserted, whose leaf holds another key, fails instead of returning the empty word ({e}); history '{shape}'"),
                    cj(),
                ));
            }
            Err(Viol::new("C18:smt-history", format!("SMT history '{shape}' diverges from the native sparse Merkle tree (assertion of step {step} / error {e})"), cj()))
        }
        Res::Ok(out, _) => {
            let r: [Felt; 4] = smt.root().into();
            let mut want: Vec<u64> = r.iter().rev().map(|f| f.as_int()).collect();
            want.extend(sent);
            while want.len() < 16 {
                want.push(0);
            }
            if strip_zeros(out.clone()) != strip_zeros(want.clone()) {
                return Err(Viol::new("C18:smt-final-root", format!("after history '{shape}' the root/stack is {:?}, the native tree has {:?}", &out[..8], &want[..8]), cj()));
            }
            Ok(Info { nontrivial: if steps >= 3 { Some(fp_str(&shape) ^ nkeys as u64) } else { None }, classes: vec!["smt".into(), format!("smt-steps~{}", steps / 5 * 5)], sample: Some(json!({"history": shape, "keys": nkeys})), ..Info::default() })
        }
    }
}

// ---- MMR histories ---------------------------------------------------------------------------------
pub fn check_mmr(choices: &Vec<u16>) -> Out {
    let mut ch = Ch::new(choices);
    let ptr = [1000u64, 0, 5000][ch.pick(3)];
    let nleaves = 1 + ch.pick(70);
    let mut mmr = Mmr::new();
    let mut src = String::from("use.std::collections::mmr\nbegin\n");
    let mut leaves = vec![];
    let mut gets = 0;
    for i in 0..nleaves {
        let l = [Felt::new(ch.felt()), Felt::new(ch.felt()), Felt::new(ch.felt()), Felt::new(i as u64 + 1)];
        mmr.add(l.into());
        leaves.push(l);
        src.push_str(&format!("push.{ptr} {} exec.mmr::add\n", w_top_first(l)));
        if ch.chance(1, 4) {
            let pos = ch.pick(leaves.len());
            src.push_str(&format!("push.{ptr} push.{pos} exec.mmr::get {} assert_eqw.err={}\n", w_top_first(leaves[pos]), 100 + i));
            gets += 1;
        }
    }
    let do_pack = ch.chance(1, 2);
    if do_pack {
        // pack, then unpack into another region
        src.push_str(&format!("push.{ptr} exec.mmr::pack dupw push.{} movdn.4 exec.mmr::unpack\n", ptr + 200));
    }
    src.push_str("end");
    let case = Case { src, use_stdlib: true, stack: vec![0x61, 0x62], ..Case::default() };
    let cj = || json!({"case": case.to_json(), "leaves": nleaves});
    match exec(&case, "mmr")? {
        Res::Err(e) => Err(Viol::new("C18:mmr-history", format!("MMR history with {nleaves} leaves diverges from the native MMR: {e}"), cj())),
        Res::Ok(out, mem) => {
            let acc = mmr.peaks(mmr.forest()).map_err(|e| Viol::new("C18:mmr-native", format!("{e}"), cj()))?;
            let check_region = |base: u64, what: &str| -> Result<(), Viol> {
                let nl = mem.get(&base).copied().unwrap_or([0; 4]);
                if nl[0] != acc.num_leaves() as u64 {
                    return Err(Viol::new(format!("C18:mmr-num-leaves:{what}"), format!("memory holds {} leaves, native {}", nl[0], acc.num_leaves()), cj()));
                }
                for (i, p) in acc.peaks().iter().enumerate() {
                    let w: [Felt; 4] = (*p).into();
                    let g = mem.get(&(base + 1 + i as u64)).copied().unwrap_or([0; 4]);
                    if g != w.map(|f| f.as_int()) {
                        return Err(Viol::new(format!("C18:mmr-peaks:{what}"), format!("peak {i}: memory {:?}, native {:?}", g, w.map(|f| f.as_int())), cj()));
                    }
                }
                Ok(())
            };
            check_region(ptr, "add")?;
            if do_pack {
                let h: Vec<u64> = acc.hash_peaks().iter().rev().map(|f| f.as_int()).collect();
                if out[..4] != h[..] {
                    return Err(Viol::new("C18:mmr-pack-hash", format!("pack returned {:?}, native hash of peaks {:?}", &out[..4], h), cj()));
                }
                check_region(ptr + 200, "unpack")?;
            }
            Ok(Info {
                nontrivial: if nleaves >= 3 { Some(fp_str(&format!("{nleaves}|{gets}|{do_pack}|{ptr}"))) } else { None },
                classes: vec!["mmr".into(), format!("mmr-peaks={}", acc.peaks().len()), if do_pack { "pack-unpack".into() } else { "add-get".into() }],
                sample: Some(json!({"leaves": nleaves, "gets": gets, "pack": do_pack})),
                ..Info::default()
            })
        }
    }
}

pub fn run(ctx: &Ctx) {
    ctx.set_rule("truncate_stack at depths 16..83 with generated contents; memcopy with n in 0..40 and equal/adjacent/overlapping/disjoint pointers; pipe_words/pipe_double_words/pipe_preimage with 0..33 words and right/wrong commitments; SMT histories of 1..25 set/get (insert, update, remove, remove-absent, get-absent) over 2..8 keys on empty and pre-populated trees, every returned value asserted and the final root compared with miden-crypto's Smt; MMR histories of 1..70 add with interleaved get, pack and unpack compared with miden-crypto's Mmr (leaves, peaks, hash of peaks); non-trivial = history length >= 3 / n >= 1 / depth > 16; distinct by history shape");
    ctx.assume("memcopy on overlapping ranges is modelled as the documented word-by-word ascending copy; SMT keys have pairwise different most significant elements (multi-key leaves are documented as unimplemented)");
    ctx.run("truncate", ctx.n(1500, 100_000), || vec(any::<u16>(), 400..401), check_truncate);
    ctx.run("memcopy", ctx.n(1500, 100_000), || vec(any::<u16>(), 900..901), check_memcopy);
    ctx.run("pipe", ctx.n(1500, 100_000), || vec(any::<u16>(), 700..701), check_pipe);
    ctx.run("smt", ctx.n(800, 60_000), || vec(any::<u16>(), 900..901), check_smt);
    ctx.run("mmr", ctx.n(400, 30_000), || vec(any::<u16>(), 1500..1501), check_mmr);
}

pub fn replay(ctx: &Ctx, v: &serde_json::Value) {
    let case = Case::from_json(&v["case"]["case"]);
    let sig = v["signature"].as_str().unwrap_or("C18:replay");
    let out = (|| -> Out {
        match exec(&case, "replay")? {
            Res::Err(e) => Err(Viol::new(sig, format!("stored program fails: {e}"), v["case"].clone())),
            Res::Ok(..) => Err(Viol::new(sig, "stored program executes; re-run `./check C18` with the same VERIF_SEED for the comparison against the native structure", v["case"].clone())),
        }
    })();
    ctx.record("replay", out);
    let _: Option<RpoDigest> = None;
}
