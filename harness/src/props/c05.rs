//! C05 — instruction semantics match the instruction reference on every stack state.

use crate::diff;
use crate::engine::{Ctx, Out};
use crate::gen::{generate, GenCfg};
use proptest::collection::vec;
use proptest::prelude::*;

fn cfg(fail: bool) -> GenCfg {
    GenCfg {
        max_nodes: 50,
        ctrl: false,
        procs: false,
        calls: false,
        kernel: false,
        dyns: false,
        mem: false,
        locals: false,
        adv: false,
        crypto: false,
        decorators: false,
        env: true,
        fail,
        max_inputs: 40,
        w: [10, 10, 10, 4, 0, 0, 0, 1],
        ..GenCfg::default()
    }
}

pub fn check(choices: &Vec<u16>, fail: bool) -> Out {
    let g = generate(choices, cfg(fail));
    let (procs, kprocs) = diff::names(&g);
    let (outcome, _) = diff::check_expect("C05", &g.case, &g.expect, g.uncertain, &procs, &kprocs)?;
    let nontrivial = g.ops.len() >= 3;
    Ok(diff::info_for(&g, &outcome, nontrivial))
}

pub fn run(ctx: &Ctx) {
    ctx.set_rule("programs = straight-line sequences of field/comparison/ext2/u32/stack/push/env instructions generated against the from-the-docs model with boundary operands and initial stacks of depth 0..40; non-trivial = >= 3 distinct instructions; distinct by (instruction set, outcome)");
    ctx.run("seq", ctx.n(20_000, 1_000_000), || vec(any::<u16>(), 10..400), |c| check(c, false));
    ctx.run("fail", ctx.n(8_000, 400_000), || vec(any::<u16>(), 10..300), |c| check(c, true));
}

pub fn replay(ctx: &Ctx, v: &serde_json::Value) {
    let case = crate::vm::Case::from_json(&v["case"]["case"]);
    let expect = diff::expect_from_json(&v["case"]["expect"]);
    let strs = |x: &serde_json::Value| -> Vec<String> { x.as_array().map(|a| a.iter().map(|s| s.as_str().unwrap().to_string()).collect()).unwrap_or_default() };
    let r = diff::check_expect("C05", &case, &expect, v["case"]["uncertain_depth"].as_bool().unwrap_or(false), &strs(&v["case"]["procs"]), &strs(&v["case"]["kprocs"]));
    ctx.record("replay", r.map(|_| crate::engine::Info::default()));
}
