//! C05 — instruction semantics match the instruction reference on every stack state.

use crate::diff;
use crate::engine::{Ctx, Out};
use crate::gen::{generate, GenCfg};
use proptest::collection::vec;
use proptest::prelude::*;

fn cfg(fail: bool) -> GenCfg {
    GenCfg {
        max_nodes: 50,
        ctrl: false,
        procs: false,
        calls: false,
        kernel: false,
        dyns: false,
        mem: false,
        locals: false,
        adv: false,
        crypto: false,
        decorators: false,
        env: true,
        fail,
        max_inputs: 40,
        w: [10, 10, 10, 4, 0, 0, 0, 1],
        ..GenCfg::default()
    }
}

pub fn check(choices: &Vec<u16>, fail: bool) -> Out {
    let g = generate(choices, cfg(fail));
    let (procs, kprocs) = diff::names(&g);
    let (outcome, _) = diff::check_expect("C05", &g.case, &g.expect, g.uncertain, &procs, &kprocs)?;
    let nontrivial = g.ops.len() >= 3;
    Ok(diff::info_for(&g, &outcome, nontrivial))
}

/// programs that end with k items on the stack, k around the largest number StackOutputs can
/// hold: whatever the VM answers, it is an answer (outputs or an error), not a panic, and up to the
/// limit the items come back in LIFO order
pub fn check_deep_final(ctx: &Ctx) {
    let ks: Vec<usize> = vec![17, 1000, 65_519, 65_520, 65_521, 70_000];
    ctx.run_list("deep-final-stack", &ks, |&k| {
        // k pushes on top of the 16 zeros: final depth 16 + k
        let src = format!("begin repeat.{} push.7 end end", k);
        let case = crate::vm::Case { src: src.clone(), ..crate::vm::Case::default() };
        let cj = serde_json::json!({"case": case.to_json(), "final_depth": 16 + k});
        let program = match crate::vm::assemble(&case, false) {
            crate::vm::Assembled::Ok(p) => p,
            _ => return Err(crate::engine::Viol::new("C05:setup", "repeat program does not assemble", cj)),
        };
        match crate::vm::run(&program, &case, processor::ExecutionOptions::default()) {
            crate::vm::Ran::Panic(p) => Err(crate::engine::Viol::new(format!("C05:exec-panic:{}", diff::panic_site(&p)), format!("a program ending with {} stack items makes the VM panic: {p}", 16 + k), cj)),
            crate::vm::Ran::Err(_, _) => Ok(crate::engine::Info { nontrivial: Some(k as u64), classes: vec!["deep-final-stack:error".into()], ..crate::engine::Info::default() }),
            crate::vm::Ran::Ok(t, _) => {
                let out = crate::vm::outputs_top_first(&t);
                if out.len() != 16 + k || out.iter().take(k).any(|v| *v != 7) || out.iter().skip(k).any(|v| *v != 0) {
                    return Err(crate::engine::Viol::new("C05:deep-final-stack", format!("{} items expected at the end ({} sevens over 16 zeros), got {}", 16 + k, k, out.len()), cj));
                }
                Ok(crate::engine::Info { nontrivial: Some(k as u64), classes: vec!["deep-final-stack:ok".into()], ..crate::engine::Info::default() })
            }
        }
    });
}

pub fn run(ctx: &Ctx) {
    check_deep_final(ctx);
    ctx.set_rule("programs = straight-line sequences of field/comparison/ext2/u32/stack/push/env instructions generated against the from-the-docs model with boundary operands and initial stacks of depth 0..40; non-trivial = >= 3 distinct instructions; distinct by (instruction set, outcome)");
    ctx.run("seq", ctx.n(20_000, 1_000_000), || vec(any::<u16>(), 10..400), |c| check(c, false));
    ctx.run("fail", ctx.n(8_000, 400_000), || vec(any::<u16>(), 10..300), |c| check(c, true));
}

pub fn replay(ctx: &Ctx, v: &serde_json::Value) {
    let case = crate::vm::Case::from_json(&v["case"]["case"]);
    let expect = diff::expect_from_json(&v["case"]["expect"]);
    let strs = |x: &serde_json::Value| -> Vec<String> { x.as_array().map(|a| a.iter().map(|s| s.as_str().unwrap().to_string()).collect()).unwrap_or_default() };
    let r = diff::check_expect("C05", &case, &expect, v["case"]["uncertain_depth"].as_bool().unwrap_or(false), &strs(&v["case"]["procs"]), &strs(&v["case"]["kprocs"]));
    ctx.record("replay", r.map(|_| crate::engine::Info::default()));
}
