//! C19 — decoders of untrusted bytes never panic and accept only what they can re-encode;
//! integer constructors reject non-canonical field elements.

use crate::engine::{fp_str, Ctx, Info, Out, Viol};
use crate::gen::Ch;
use crate::props::c01::round_trip;
use crate::srcgen::{self, SrcCfg};
use crate::vm::{self, Case};
use air::ExecutionProof;
use assembly::ast::{AstSerdeOptions, ModuleAst, ProgramAst};
use assembly::{LibraryNamespace, LibraryPath, MaslLibrary, Module, ProcedureId, ProcedureName, Version};
use processor::AdviceInputs;
use proptest::collection::vec;
use proptest::prelude::*;
use serde_json::json;
use std::sync::OnceLock;
use vm_core::utils::{Deserializable, Serializable};
use vm_core::{Felt, Kernel, ProgramInfo, StackInputs, StackOutputs};

pub const KINDS: [&str; 12] = ["proof", "program-ast", "module-ast", "library", "kernel", "program-info", "stack-inputs", "stack-outputs", "library-path", "procedure-name", "procedure-id", "public-inputs"];

struct Golden {
    case: Case,
    info: ProgramInfo,
    outputs: StackOutputs,
    proof: ExecutionProof,
    proof_bytes: Vec<u8>,
}
static GOLDEN: OnceLock<Golden> = OnceLock::new();
fn golden() -> &'static Golden {
    GOLDEN.get_or_init(|| {
        let case = Case { src: "proc.f push.3 drop end begin push.1 push.2 add call.f push.7.8.9 mem_storew.2 dropw push.1.2.3 end".into(), stack: vec![5, 6, 7], ..Case::default() };
        let pr = round_trip(&case, 0, 64).ok().and_then(|r| r.ok()).expect("golden proof");
        let bytes = pr.proof.to_bytes();
        Golden { case, info: crate::common::program_info(&pr.program), outputs: pr.outputs, proof: pr.proof, proof_bytes: bytes }
    })
}

fn hexs(b: &[u8]) -> String {
    b.iter().take(4096).map(|x| format!("{:02x}", x)).collect()
}

/// signature of a panic: those raised by the STARK dependency on malformed proofs are a known
/// finding per crate (see C02); everything else keeps its site
fn panic_sig(kind: &str, p: &str) -> String {
    let site = crate::diff::panic_site(p);
    let krate = site.split('/').next().unwrap_or("");
    if krate.starts_with("winter-") {
        let name: Vec<&str> = krate.rsplitn(2, '-').collect();
        return format!("C19:malformed-proof-panic:{}", name.last().unwrap());
    }
    if krate.starts_with("[winter-") {
        return format!("C19:malformed-proof-panic:{}", krate.trim_matches(|c| c == '[' || c == ']'));
    }
    format!("C19:panic:{kind}:{site}")
}

/// decode `bytes` as `kind`; Ok(false) = rejected, Ok(true) = accepted and re-encodable
pub fn decode(kind: usize, bytes: &[u8]) -> Result<bool, Viol> {
    let k = KINDS[kind];
    let cj = || json!({"decoder": k, "bytes_hex": hexs(bytes), "len": bytes.len()});
    macro_rules! rt {
        ($dec:expr, $enc:expr, $eq:expr) => {{
            match vm::catch(|| $dec(bytes)) {
                Err(p) => return Err(Viol::new(panic_sig(k, &p), format!("{k} decoder panicked: {p}"), cj())),
                Ok(Err(_)) => return Ok(false),
                Ok(Ok(v)) => {
                    let re = match vm::catch(|| $enc(&v)) {
                        Err(p) => {
                            let sig = panic_sig(&format!("reencode-{k}"), &p);
                            return Err(Viol::new(sig, format!("accepted {k} cannot be re-encoded: {p}"), cj()));
                        }
                        Ok(b) => b,
                    };
                    match vm::catch(|| $dec(&re[..])) {
                        Err(p) => return Err(Viol::new(panic_sig(k, &p), format!("re-encoded {k} makes the decoder panic: {p}"), cj())),
                        Ok(Err(e)) => return Err(Viol::new(format!("C19:reencode-rejected:{k}"), format!("accepted {k} re-encodes to bytes the decoder rejects: {e}"), cj())),
                        Ok(Ok(v2)) => {
                            if !$eq(&v, &v2) {
                                return Err(Viol::new(format!("C19:reencode-differs:{k}"), format!("accepted {k} does not survive a re-encoding round trip"), cj()));
                            }
                        }
                    }
                    v
                }
            }
        }};
    }
    let g = golden();
    let verify = |info: ProgramInfo, inputs: StackInputs, outputs: StackOutputs, proof: ExecutionProof| -> Result<(), Viol> {
        match vm::catch(|| verifier::verify(info, inputs, outputs, proof).is_ok()) {
            Err(p) => Err(Viol::new(panic_sig(&format!("verify-after-{k}"), &p), format!("verify() on a decoded {k} panicked: {p}"), cj())),
            Ok(_) => Ok(()),
        }
    };
    match kind {
        0 => {
            let p: ExecutionProof = rt!(|b: &[u8]| ExecutionProof::from_bytes(b), |v: &ExecutionProof| v.to_bytes(), |a: &ExecutionProof, b: &ExecutionProof| a == b);
            verify(g.info.clone(), g.case.stack_inputs(), g.outputs.clone(), p)?;
        }
        1 => {
            let imports = bytes.first() == Some(&1);
            let _v: ProgramAst = rt!(|b: &[u8]| ProgramAst::from_bytes(b), |v: &ProgramAst| v.to_bytes(AstSerdeOptions::new(imports)), |a: &ProgramAst, b: &ProgramAst| a == b);
        }
        2 => {
            let imports = bytes.first() == Some(&1);
            let _v: ModuleAst = rt!(|b: &[u8]| ModuleAst::from_bytes(b), |v: &ModuleAst| v.to_bytes(AstSerdeOptions::new(imports)), |a: &ModuleAst, b: &ModuleAst| a == b);
        }
        3 => {
            let _v: MaslLibrary = rt!(|b: &[u8]| MaslLibrary::read_from_bytes(b), |v: &MaslLibrary| v.to_bytes(), |a: &MaslLibrary, b: &MaslLibrary| a == b);
        }
        4 => {
            let v: Kernel = rt!(|b: &[u8]| Kernel::read_from_bytes(b), |v: &Kernel| v.to_bytes(), |a: &Kernel, b: &Kernel| a == b);
            verify(ProgramInfo::new(*g.info.program_hash(), v), g.case.stack_inputs(), g.outputs.clone(), g.proof.clone())?;
        }
        5 => {
            let v: ProgramInfo = rt!(|b: &[u8]| ProgramInfo::read_from_bytes(b), |v: &ProgramInfo| v.to_bytes(), |a: &ProgramInfo, b: &ProgramInfo| a == b);
            verify(v, g.case.stack_inputs(), g.outputs.clone(), g.proof.clone())?;
        }
        6 => {
            let v: StackInputs = rt!(|b: &[u8]| StackInputs::read_from_bytes(b), |v: &StackInputs| v.to_bytes(), |a: &StackInputs, b: &StackInputs| a.values() == b.values());
            verify(g.info.clone(), v, g.outputs.clone(), g.proof.clone())?;
        }
        7 => {
            let v: StackOutputs = rt!(|b: &[u8]| StackOutputs::read_from_bytes(b), |v: &StackOutputs| v.to_bytes(), |a: &StackOutputs, b: &StackOutputs| a == b);
            verify(g.info.clone(), g.case.stack_inputs(), v, g.proof.clone())?;
        }
        8 => {
            let _v: LibraryPath = rt!(|b: &[u8]| LibraryPath::read_from_bytes(b), |v: &LibraryPath| v.to_bytes(), |a: &LibraryPath, b: &LibraryPath| a == b);
        }
        9 => {
            let _v: ProcedureName = rt!(|b: &[u8]| ProcedureName::read_from_bytes(b), |v: &ProcedureName| v.to_bytes(), |a: &ProcedureName, b: &ProcedureName| a == b);
        }
        10 => {
            let _v: ProcedureId = rt!(|b: &[u8]| ProcedureId::read_from_bytes(b), |v: &ProcedureId| v.to_bytes(), |a: &ProcedureId, b: &ProcedureId| a == b);
        }
        _ => {
            let _v: air::PublicInputs = rt!(|b: &[u8]| air::PublicInputs::read_from_bytes(b), |v: &air::PublicInputs| v.to_bytes(), |a: &air::PublicInputs, b: &air::PublicInputs| a.to_bytes() == b.to_bytes());
        }
    }
    Ok(true)
}

/// a valid encoding of `kind`
pub fn valid_encoding(kind: usize, ch: &mut Ch, seed: &[u16]) -> Vec<u8> {
    let g = golden();
    match kind {
        0 => g.proof_bytes.clone(),
        1 => {
            let s = srcgen::generate(seed, &SrcCfg { max_items: 40, max_nest: 3, module: false, kernel: false, imports: true, docs: true }, &[], true);
            ProgramAst::parse(&s.text).map(|a| a.to_bytes(AstSerdeOptions::new(ch.chance(1, 2)))).unwrap_or_default()
        }
        2 => {
            let s = srcgen::generate(seed, &SrcCfg { max_items: 40, max_nest: 3, module: true, kernel: false, imports: true, docs: true }, &[], true);
            ModuleAst::parse(&s.text).map(|a| a.to_bytes(AstSerdeOptions::new(ch.chance(1, 2)))).unwrap_or_default()
        }
        3 => {
            let s = srcgen::generate(seed, &SrcCfg { max_items: 25, max_nest: 2, module: true, kernel: false, imports: true, docs: true }, &[], true);
            match ModuleAst::parse(&s.text) {
                Ok(ast) => {
                    let n = 1 + ch.pick(3);
                    let mods: Vec<Module> = (0..n).map(|i| Module::new(LibraryPath::new(format!("vlib::m{i}")).unwrap(), ast.clone())).collect();
                    MaslLibrary::new(LibraryNamespace::new("vlib").unwrap(), Version::default(), ch.chance(1, 2), mods, vec![]).map(|l| l.to_bytes()).unwrap_or_default()
                }
                Err(_) => vec![],
            }
        }
        4 | 5 => {
            let nk = [0usize, 1, 2, 5][ch.pick(4)];
            let ds: Vec<vm_core::crypto::hash::RpoDigest> = (0..nk).map(|i| [Felt::new(ch.felt()), Felt::new(i as u64), Felt::new(ch.felt()), Felt::new(ch.felt())].into()).collect();
            let k = Kernel::new(&ds).unwrap();
            if kind == 4 {
                k.to_bytes()
            } else {
                ProgramInfo::new([Felt::new(ch.felt()), Felt::new(1), Felt::new(2), Felt::new(3)].into(), k).to_bytes()
            }
        }
        6 => {
            let n = ch.pick(24);
            StackInputs::try_from_values((0..n).map(|_| ch.felt())).unwrap().to_bytes()
        }
        7 => {
            let m = [0usize, 3, 16, 17, 20][ch.pick(5)];
            let st: Vec<u64> = (0..m).map(|_| ch.felt()).collect();
            let addrs: Vec<u64> = if m > 16 { (0..m - 15).map(|i| i as u64 * 3).collect() } else { vec![] };
            StackOutputs::new(st, addrs).unwrap().to_bytes()
        }
        8 => {
            // written by hand (u16 length + bytes) so that the reserved first components and their
            // near misses are among the starting points as well
            let p = ["std::math::u64", "a", "abc::d_e::f1", "#sys", "#exec", "#sys::foo", "#exec::a::b"][ch.pick(7)];
            let mut b = (p.len() as u16).to_le_bytes().to_vec();
            b.extend_from_slice(p.as_bytes());
            b
        }
        9 => ProcedureName::try_from(["foo", "a_b1", "x"][ch.pick(3)].to_string()).map(|n| n.to_bytes()).unwrap_or_default(),
        10 => ProcedureId::new("std::math::u64::add").to_bytes(),
        _ => {
            let mut v = g.info.to_bytes();
            v.extend(g.case.stack_inputs().to_bytes());
            v.extend(g.outputs.to_bytes());
            v
        }
    }
}

fn mutate(b: &mut Vec<u8>, ch: &mut Ch, other: &[u8]) -> &'static str {
    if b.is_empty() {
        b.push(ch.next() as u8);
        return "from-empty";
    }
    match ch.pick(12) {
        10 | 11 => {
            // text-aware: the encodings carry names and `::`-separated paths; change one
            // separator or one name character, keeping every length field consistent
            let seps: Vec<usize> = (0..b.len().saturating_sub(1)).filter(|i| b[*i] == b':' && b[*i + 1] == b':').collect();
            let letters: Vec<usize> = (0..b.len()).filter(|i| b[*i].is_ascii_lowercase() || b[*i] == b'_').collect();
            if !seps.is_empty() && ch.chance(2, 3) {
                let i = seps[ch.pick(seps.len())];
                let rep: [&[u8; 2]; 6] = [b"__", b"ab", b":a", b"a:", b"  ", b"\0\0"];
                b[i..i + 2].copy_from_slice(rep[ch.pick(6)]);
                "path-separator"
            } else if letters.len() >= 2 && ch.chance(1, 3) {
                // a separator written over two adjacent name characters (one name becomes a path)
                let pairs: Vec<usize> = letters.windows(2).filter(|w| w[1] == w[0] + 1).map(|w| w[0]).collect();
                if pairs.is_empty() {
                    "text-none"
                } else {
                    let i = pairs[ch.pick(pairs.len())];
                    b[i] = b':';
                    b[i + 1] = b':';
                    "separator-inserted"
                }
            } else if !letters.is_empty() {
                let i = letters[ch.pick(letters.len())];
                b[i] = [b':', b'.', b' ', b'0', b'A', b'-', 0, 0xff, b'$', b'#'][ch.pick(10)];
                "name-character"
            } else {
                "text-none"
            }
        }
        0 => {
            let i = ch.pick(b.len());
            b[i] ^= 1 << ch.pick(8);
            "bit-flip"
        }
        1 => {
            let i = ch.pick(b.len());
            b[i] = [0u8, 0xff, 1, 0x7f, 0x80][ch.pick(5)];
            "byte-set"
        }
        2 => {
            let n = ch.pick(b.len());
            b.truncate(n);
            "truncate"
        }
        3 => {
            let n = 1 + ch.pick(9);
            for _ in 0..n {
                b.push(ch.next() as u8);
            }
            "extend"
        }
        4 => {
            // splice a chunk of another valid encoding
            if !other.is_empty() {
                let i = ch.pick(b.len());
                let j = ch.pick(other.len());
                let n = 1 + ch.pick(24.min(other.len() - j));
                let end = (i + n).min(b.len());
                b.splice(i..end, other[j..j + n].iter().copied());
            }
            "splice"
        }
        5 | 6 => {
            // a 16-bit length/count field somewhere near the front
            let i = ch.pick(b.len().min(64));
            let v: u16 = [0u16, 1, 2, 0x7fff, 0xfffe, 0xffff, 255, 256][ch.pick(8)];
            if i + 1 < b.len() {
                b[i..i + 2].copy_from_slice(&v.to_le_bytes());
            }
            "len16"
        }
        7 => {
            let i = ch.pick(b.len().min(64));
            let v: u32 = [0u32, 1, 17, 0xffff, 0x10000, u32::MAX, u32::MAX - 1][ch.pick(7)];
            if i + 3 < b.len() {
                b[i..i + 4].copy_from_slice(&v.to_le_bytes());
            }
            "len32"
        }
        8 => {
            // a non-canonical field element somewhere
            let i = ch.pick(b.len());
            let v: u64 = [crate::fe::P, crate::fe::P + 1, u64::MAX][ch.pick(3)];
            if i + 7 < b.len() {
                b[i..i + 8].copy_from_slice(&v.to_le_bytes());
            }
            "non-canonical-felt"
        }
        _ => {
            let i = ch.pick(b.len());
            let n = 1 + ch.pick(6);
            for k in 0..n {
                if i + k < b.len() {
                    b[i + k] = ch.next() as u8;
                }
            }
            "random-bytes"
        }
    }
}

pub fn check_mutations(choices: &Vec<u16>, kind: usize) -> Out {
    let mut ch = Ch::new(choices);
    let seed: Vec<u16> = choices.iter().skip(40).copied().collect();
    let valid = valid_encoding(kind, &mut ch, &seed);
    let other = valid_encoding(kind, &mut ch, &choices.iter().rev().copied().collect::<Vec<_>>());
    let mut soft: Vec<Viol> = vec![];
    let mut fps = vec![];
    let mut classes = vec![format!("decoder:{}", KINDS[kind])];
    let mut evals = 0;
    // the valid encoding itself must be accepted
    if !valid.is_empty() {
        match decode(kind, &valid) {
            Ok(true) => {}
            Ok(false) => return Err(Viol::new(format!("C19:valid-rejected:{}", KINDS[kind]), "a valid encoding is rejected", json!({"decoder": KINDS[kind], "bytes_hex": hexs(&valid)}))),
            Err(v) => {
                if v.sig.starts_with("C19:malformed-proof-panic:") {
                    soft.push(v);
                } else {
                    return Err(v);
                }
            }
        }
    }
    let rounds = if kind == 0 { 6 } else { 24 };
    for _ in 0..rounds {
        let mut b = valid.clone();
        let nm = 1 + ch.pick(3);
        let mut label = "";
        for _ in 0..nm {
            label = mutate(&mut b, &mut ch, &other);
        }
        evals += 1;
        match decode(kind, &b) {
            Ok(acc) => {
                let outcome = if acc { "accepted" } else { "rejected" };
                classes.push(format!("{}:{}", label, outcome));
                // non-trivial: the mutated input gets past the header (accepted, or longer than a few bytes)
                if acc || b.len() > 8 {
                    fps.push(fp_str(&format!("{}|{}|{}", KINDS[kind], label, outcome)) ^ (b.len() as u64 % 8));
                }
            }
            Err(v) => {
                if v.sig.starts_with("C19:malformed-proof-panic:") {
                    if !soft.iter().any(|x| x.sig == v.sig) {
                        soft.push(v);
                    }
                } else {
                    return Err(v);
                }
            }
        }
    }
    classes.sort();
    classes.dedup();
    Ok(Info { nontrivial: fps.first().copied(), extra_nontrivial: fps, classes, evals, soft, sample: Some(json!({"decoder": KINDS[kind], "valid_len": valid.len()})) })
}

pub fn check_random(choices: &Vec<u16>) -> Out {
    let mut ch = Ch::new(choices);
    let kind = ch.pick(KINDS.len());
    let n = ch.pick(choices.len().max(1) * 2);
    let bytes: Vec<u8> = choices.iter().flat_map(|c| c.to_le_bytes()).take(n).collect();
    let acc = match decode(kind, &bytes) {
        Ok(a) => a,
        Err(v) if v.sig.starts_with("C19:malformed-proof-panic:") => return Ok(Info { soft: vec![v], ..Info::default() }),
        Err(v) => return Err(v),
    };
    Ok(Info { nontrivial: if acc { Some(fp_str(&format!("{}{:?}", kind, &bytes[..bytes.len().min(8)]))) } else { None }, classes: vec![format!("random:{}:{}", KINDS[kind], if acc { "accepted" } else { "rejected" })], ..Info::default() })
}

/// every prefix of a valid encoding (truncation at every length) for the small types and every
/// 16th prefix of the big ones
pub fn check_prefixes(ctx: &Ctx) {
    let kinds: Vec<usize> = (0..KINDS.len()).collect();
    ctx.run_list("prefixes", &kinds, |&kind| {
        let seed: Vec<u16> = (0..600u32).map(|i| (i.wrapping_mul(40503) >> 3) as u16).collect();
        let mut ch = Ch::new(&seed);
        let valid = valid_encoding(kind, &mut ch, &seed);
        let step = if valid.len() > 4000 { 37 } else { 1 };
        let mut soft = vec![];
        let mut evals = 0;
        let mut fps = vec![];
        let mut n = 0;
        while n < valid.len() {
            evals += 1;
            match decode(kind, &valid[..n]) {
                Ok(acc) => fps.push((kind as u64) << 32 | (n as u64) << 1 | acc as u64),
                Err(v) if v.sig.starts_with("C19:malformed-proof-panic:") => {
                    if !soft.iter().any(|x: &Viol| x.sig == v.sig) {
                        soft.push(v)
                    }
                }
                Err(v) => return Err(v),
            }
            n += step;
        }
        Ok(Info { nontrivial: fps.first().copied(), extra_nontrivial: fps, classes: vec![format!("prefixes:{}", KINDS[kind])], evals, soft, ..Info::default() })
    });
}

/// constructors from integers: canonical values accepted, everything >= p rejected
pub fn check_constructors(ctx: &Ctx) {
    let p = crate::fe::P;
    let vals: Vec<u64> = vec![0, 1, p - 2, p - 1, p, p + 1, p + (1 << 31), u64::MAX - 1, u64::MAX];
    let mut items = vec![];
    for &v in &vals {
        for pos in [0usize, 1, 15, 16, 20] {
            for which in 0..4 {
                items.push((v, pos, which));
            }
        }
    }
    ctx.run_list("constructors", &items, |&(v, pos, which)| {
        let cj = json!({"constructor": which, "value": v, "position": pos});
        let mut list: Vec<u64> = (0..pos as u64 + 3).collect();
        list[pos] = v;
        let canonical = v < p;
        let r: Result<bool, String> = vm::catch(|| match which {
            0 => StackInputs::try_from_values(list.iter().copied()).is_ok(),
            1 => {
                let addrs: Vec<u64> = if list.len() > 16 { (0..list.len() as u64 - 15).collect() } else { vec![] };
                StackOutputs::new(list.clone(), addrs).is_ok()
            }
            2 => {
                // overflow address list
                let st: Vec<u64> = (0..17).collect();
                StackOutputs::new(st, vec![v, 5]).is_ok()
            }
            _ => AdviceInputs::default().with_stack_values(list.iter().copied()).is_ok(),
        });
        match r {
            Err(pn) => Err(Viol::new("C19:constructor-panic", pn, cj)),
            Ok(ok) if ok != canonical => Err(Viol::new(
                if ok { "C19:constructor-accepts-non-canonical" } else { "C19:constructor-rejects-canonical" },
                format!("constructor {which} returned ok={ok} for value {v} (canonical: {canonical})"),
                cj,
            )),
            Ok(_) => Ok(Info { nontrivial: Some(fp_str(&format!("{v}|{pos}|{which}"))), classes: vec![format!("constructor:{}", if canonical { "canonical" } else { "non-canonical" })], ..Info::default() }),
        }
    });
}

/// deeply nested bodies: run the decoder in a child process so that a stack overflow (an abort,
/// not an unwind) is observed as a signal
pub fn check_nesting(ctx: &Ctx) {
    let depths: Vec<usize> = if ctx.quick() { vec![10, 100, 1000, 5000, 30000] } else { vec![10, 100, 500, 1000, 2000, 5000, 10000, 30000, 100000] };
    ctx.run_list("deep-nesting", &depths, |&k| {
        let exe = std::env::current_exe().unwrap();
        let out = std::process::Command::new(exe).args(["c19-child", &format!("{k}")]).output();
        let cj = json!({"decoder": "program-ast", "nested_while_headers": k});
        match out {
            Err(e) => Err(Viol::new("C19:child-spawn", format!("{e}"), cj)),
            Ok(o) => {
                if o.status.success() {
                    Ok(Info { nontrivial: Some(k as u64), classes: vec!["deep-nesting-ok".into()], sample: Some(cj), ..Info::default() })
                } else {
                    use std::os::unix::process::ExitStatusExt;
                    Err(Viol::new(
                        "C19:decoder-recursion-stack-overflow",
                        format!("decoding {k} nested loop headers ({} bytes) killed the process (signal {:?}, status {:?})", 3 * k + 8, o.status.signal(), o.status.code()),
                        cj,
                    ))
                }
            }
        }
    });
}

/// entry point of the child process: decode a body of `k` nested `while` headers on a thread with
/// Rust's default 2 MiB stack
pub fn child(k: usize) {
    let mut b: Vec<u8> = vec![0]; // options: imports not serialised
    b.extend(0u16.to_le_bytes()); // no procedures
    b.extend(1u16.to_le_bytes()); // one node in the body
    for _ in 0..k {
        b.push(255); // OpCode::While
        b.extend(1u16.to_le_bytes()); // body of one node
    }
    b.push(8); // add
    let h = std::thread::spawn(move || {
        let r = ProgramAst::from_bytes(&b);
        std::process::exit(if r.is_ok() { 0 } else { 0 });
    });
    let _ = h.join();
    std::process::exit(3);
}

/// path / name strings around the reserved first components and the character rules, written as
/// encodings by hand: each must be answered without a panic, and what is accepted re-encodes equal
pub fn check_name_strings(ctx: &Ctx) {
    let strings: Vec<&str> = vec![
        "#sys", "#exec", "#anon", "#sys::foo", "#exec::a::b", "#sysx", "#sys:", "#sys::", "#exec::", "#", "##", "#sys\u{20ac}", "#exec\u{e9}::a", "#sys::\u{e9}", "a::", "::a", "a::::b", "a:b", ":", "::", "1a", "a::1b",
        "a b", "a-b", "\u{e9}", "a::\u{1F600}", "A", "a_", "_a", "", " ",
    ];
    let mut items: Vec<(usize, Vec<u8>, String)> = vec![];
    for s in &strings {
        // library-path (u16 length), procedure-name (u8 length?) and namespace inside a library are
        // all reached through these two decoders
        for kind in [8usize, 9] {
            let mut b = (s.len() as u16).to_le_bytes().to_vec();
            b.extend_from_slice(s.as_bytes());
            items.push((kind, b.clone(), s.to_string()));
            let mut b1 = vec![s.len() as u8];
            b1.extend_from_slice(s.as_bytes());
            items.push((kind, b1, s.to_string()));
        }
    }
    ctx.run_list("name-strings", &items, |(kind, bytes, s)| match decode(*kind, bytes) {
        Ok(acc) => Ok(Info { nontrivial: Some(fp_str(&format!("{kind}{s}{}", bytes.len()))), classes: vec![format!("name-string:{}", if acc { "accepted" } else { "rejected" })], ..Info::default() }),
        Err(v) => Err(v),
    });
}

pub fn run(ctx: &Ctx) {
    *ctx.level.lock().unwrap() = "fault_enumeration".into();
    check_name_strings(ctx);
    ctx.set_rule("for each of the 12 decoders: valid encodings (grammar-generated ASTs and libraries, data values, a real proof) under 1..3 generated mutations (bit flips, byte sets, truncation, extension, splices between two valid encodings, 16-/32-bit length fields set to boundary values, non-canonical field elements, random byte runs), every prefix of a valid encoding, raw random strings, deeply nested bodies decoded in a child process; oracle: no panic, an accepted value re-encodes and decodes to an equal value, verify() with a decoded statement part or proof does not panic; constructors from integers enumerated over values around p at five positions; non-trivial = mutated input longer than 8 bytes or accepted; distinct by (decoder, mutation kind, outcome)");
    let _ = golden();
    check_constructors(ctx);
    check_prefixes(ctx);
    check_nesting(ctx);
    for kind in 0..KINDS.len() {
        let n = if kind == 0 { ctx.n(300, 30_000) } else { ctx.n(1200, 150_000) };
        ctx.run(&format!("mutate-{}", KINDS[kind]), n, || vec(any::<u16>(), 120..700), move |c| check_mutations(c, kind));
    }
    ctx.run("random-bytes", ctx.n(20_000, 3_000_000), || vec(any::<u16>(), 0..2048), check_random);
}

pub fn replay(ctx: &Ctx, v: &serde_json::Value) {
    let c = &v["case"];
    if let Some(k) = c["nested_while_headers"].as_u64() {
        let exe = std::env::current_exe().unwrap();
        let ok = std::process::Command::new(exe).args(["c19-child", &format!("{k}")]).output().map(|o| o.status.success()).unwrap_or(false);
        ctx.record("replay", if ok { Ok(Info::default()) } else { Err(Viol::new("C19:decoder-recursion-stack-overflow", "child process killed", c.clone())) });
        return;
    }
    if c.get("constructor").is_some() {
        check_constructors(ctx);
        return;
    }
    let kind = KINDS.iter().position(|k| Some(*k) == c["decoder"].as_str()).unwrap_or(0);
    let hex = c["bytes_hex"].as_str().unwrap_or("");
    let bytes: Vec<u8> = (0..hex.len() / 2).map(|i| u8::from_str_radix(&hex[2 * i..2 * i + 2], 16).unwrap_or(0)).collect();
    ctx.record("replay", decode(kind, &bytes).map(|_| Info::default()));
}
