pub mod c05;
