pub mod c03;
pub mod c05;
pub mod c06;
pub mod c07;
pub mod c12;
