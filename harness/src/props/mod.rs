pub mod c03;
pub mod c05;
pub mod c06;
