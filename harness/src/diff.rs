//! Differential oracle: implementation vs reference model on a generated case.

use crate::engine::{fp_str, Info, Out, Viol};
use crate::fe::P;
use crate::gen::{Expect, Generated};
use crate::model::{Fail, KPROC, SYM_BASE};
use crate::vm::{self, Assembled, Case, Ran};
use processor::{ExecutionError, ExecutionOptions};
use serde_json::{json, Value};
use vm_core::StarkField;

pub fn expect_to_json(e: &Expect) -> Value {
    match e {
        Expect::Ok(st) => json!({"ok": st}),
        Expect::Fail(f) => json!({"fail": format!("{:?}", f), "code": match f { Fail::Assert(c) => Some(*c), _ => None }}),
    }
}

pub fn expect_from_json(v: &Value) -> Expect {
    if let Some(a) = v["ok"].as_array() {
        Expect::Ok(a.iter().map(|x| x.as_u64().unwrap()).collect())
    } else {
        let code = v["code"].as_u64();
        match code {
            Some(c) => Expect::Fail(Fail::Assert(c as u32)),
            None => Expect::Fail(Fail::DivZero), // kind is informational only
        }
    }
}

pub fn replay_json(case: &Case, expect: &Expect, procs: &[String], kprocs: &[String]) -> Value {
    json!({"case": case.to_json(), "expect": expect_to_json(expect), "procs": procs, "kprocs": kprocs})
}

/// MAST root of procedure `name`, obtained through `procref` in a tiny program assembled with
/// the same procedures (used only to resolve symbolic values of the model).
pub fn proc_root(case: &Case, name: &str) -> Option<[u64; 4]> {
    // replace the main body
    let idx = case.src.rfind("begin\n")?;
    let src = format!("{}begin\nprocref.{}\nend\n", &case.src[..idx], name);
    let c = Case { src, kernel: case.kernel.clone(), modules: case.modules.clone(), use_stdlib: case.use_stdlib, ..Case::default() };
    let Assembled::Ok(p) = vm::assemble(&c, false) else { return None };
    let Ran::Ok(t, _) = vm::run(&p, &c, ExecutionOptions::default()) else { return None };
    let o = vm::outputs_top_first(&t);
    Some([o[3], o[2], o[1], o[0]])
}

/// root of an exported kernel procedure = the digest recorded in the program's kernel
pub fn kernel_root(case: &Case, name: &str) -> Option<[u64; 4]> {
    let k = case.kernel.as_ref()?;
    // compile the kernel procedure as an ordinary procedure: same body => same MAST root
    let body = k.replace("export.", "proc.");
    let src = format!("{}begin\nprocref.{}\nend\n", body, name);
    let c = Case { src, ..Case::default() };
    let Assembled::Ok(p) = vm::assemble(&c, false) else { return None };
    let Ran::Ok(t, _) = vm::run(&p, &c, ExecutionOptions::default()) else { return None };
    let o = vm::outputs_top_first(&t);
    Some([o[3], o[2], o[1], o[0]])
}

pub fn resolve_syms(case: &Case, st: &[u64], procs: &[String], kprocs: &[String]) -> Result<Vec<u64>, String> {
    let mut out = st.to_vec();
    let mut cache: std::collections::BTreeMap<u64, [u64; 4]> = Default::default();
    for v in out.iter_mut() {
        if *v >= P {
            let s = *v - SYM_BASE;
            let (p, k) = (s / 4, (s % 4) as usize);
            if !cache.contains_key(&p) {
                let r = if (p as usize) >= KPROC {
                    kernel_root(case, &kprocs[p as usize - KPROC])
                } else {
                    proc_root(case, &procs[p as usize])
                };
                cache.insert(p, r.ok_or_else(|| format!("cannot resolve root of procedure {}", p))?);
            }
            *v = cache[&p][k];
        }
    }
    Ok(out)
}

pub fn err_kind(e: &ExecutionError) -> String {
    let s = format!("{:?}", e);
    s.split(|c: char| c == '(' || c == '{' || c == ' ').next().unwrap_or("").to_string()
}

/// Compare the implementation with the model's expectation. `prop` prefixes the signature.
pub fn check_expect(prop: &str, case: &Case, expect: &Expect, uncertain: bool, procs: &[String], kprocs: &[String]) -> Result<(String, Option<Box<processor::ExecutionTrace>>), Viol> {
    let rj = || {
        let mut v = replay_json(case, expect, procs, kprocs);
        v["uncertain_depth"] = json!(uncertain);
        v
    };
    let prog = match vm::assemble(case, false) {
        Assembled::Ok(p) => p,
        Assembled::Err(e) => return Err(Viol::new(format!("{prop}:asm-err"), format!("generated source rejected by the assembler: {e}"), rj())),
        Assembled::Panic(p) => return Err(Viol::new(format!("{prop}:asm-panic"), format!("assembler panicked: {p}"), rj())),
    };
    match (vm::run(&prog, case, ExecutionOptions::default()), expect) {
        (Ran::Panic(p), _) => Err(Viol::new(format!("{prop}:exec-panic:{}", panic_site(&p)), format!("execution panicked: {p}"), rj())),
        (Ran::Ok(t, _), Expect::Ok(st)) => {
            let want = resolve_syms(case, st, procs, kprocs).map_err(|e| Viol::new(format!("{prop}:sym"), e, rj()))?;
            let mut got = vm::outputs_top_first(&t);
            let mut want = want;
            if uncertain {
                // the model knows the stack only up to zeros at the bottom
                while got.len() > 16 && got.last() == Some(&0) {
                    got.pop();
                }
                while want.len() > 16 && want.last() == Some(&0) {
                    want.pop();
                }
            }
            if got != want {
                let pos = got.iter().zip(want.iter()).position(|(a, b)| a != b).unwrap_or(got.len().min(want.len()));
                return Err(Viol::new(
                    format!("{prop}:stack-mismatch"),
                    format!("final stack differs from the reference model at position {pos}: got {:?} want {:?} (len {} vs {})", got.get(pos), want.get(pos), got.len(), want.len()),
                    rj(),
                ));
            }
            Ok(("ok".into(), Some(t)))
        }
        (Ran::Ok(t, _), Expect::Fail(f)) => Err(Viol::new(
            format!("{prop}:missing-failure:{:?}", std::mem::discriminant(f)),
            format!("documentation says execution fails ({:?}) but it succeeded with stack {:?}", f, &vm::outputs_top_first(&t)[..4]),
            rj(),
        )),
        (Ran::Err(e, _), Expect::Ok(_)) => Err(Viol::new(format!("{prop}:unexpected-error:{}", err_kind(&e)), format!("execution failed where the documentation defines a result: {e}"), rj())),
        (Ran::Err(e, _), Expect::Fail(f)) => {
            if let Fail::Assert(code) = f {
                // assertion failures carry their error code
                if let ExecutionError::FailedAssertion { err_code, .. } = &e {
                    if err_code != code {
                        return Err(Viol::new(format!("{prop}:wrong-err-code"), format!("assertion failed with code {err_code}, expected {code}"), rj()));
                    }
                }
            }
            Ok((format!("fail:{}", err_kind(&e)), None))
        }
    }
}

pub fn panic_site(p: &str) -> String {
    // "<message> @ <file>:<line>": keep the crate-relative path so that the site is unambiguous
    let loc = p.rsplit(" @ ").next().unwrap_or("");
    if let Some(i) = loc.find("/registry/src/") {
        let rest = &loc[i + "/registry/src/".len()..];
        return rest.splitn(2, '/').nth(1).unwrap_or(rest).to_string();
    }
    loc.trim_start_matches("/repo/").to_string()
}

pub fn names(g: &Generated) -> (Vec<String>, Vec<String>) {
    (g.prog.procs.iter().map(|p| p.name.clone()).collect(), g.prog.kprocs.iter().map(|p| p.name.clone()).collect())
}

pub fn info_for(g: &Generated, outcome: &str, nontrivial: bool) -> Info {
    let ops: Vec<String> = g.ops.iter().map(|o| format!("{:?}", o)).collect();
    let fp = fp_str(&format!("{}|{}", ops.join(","), outcome));
    let mut classes: Vec<String> = g.classes.iter().map(|s| s.to_string()).collect();
    classes.push(format!("outcome:{}", outcome.split(':').next().unwrap()));
    if !g.uncertain {
        classes.push("depth-certain".into());
    }
    if g.ops.contains(&crate::model::Op::Caller) {
        classes.push("caller".into());
    }
    if g.max_depth > 16 {
        classes.push("depth>16".into());
    }
    if g.case.stack.len() > 16 {
        classes.push("inputs>16".into());
    }
    Info {
        nontrivial: if nontrivial { Some(fp) } else { None },
        classes,
        sample: Some(json!({"src": g.case.src, "kernel": g.case.kernel, "stack_top_first": g.case.stack, "advice": g.case.adv, "expect": expect_to_json(&g.expect)})),
        evals: 1,
        extra_nontrivial: vec![],
        soft: vec![],
    }
}

pub fn felt_vec(v: &[vm_core::Felt]) -> Vec<u64> {
    v.iter().map(|f| f.as_int()).collect()
}
