//! Thin wrappers around the code under test: assemble, execute, catch panics, quiet host.

use assembly::{Assembler, Library};
use processor::{
    AdviceExtractor, AdviceInputs, AdviceProvider, ExecutionError, ExecutionOptions, ExecutionTrace, Host,
    HostResponse, MemAdviceProvider, ProcessState,
};
use std::collections::BTreeMap;
use std::panic::{catch_unwind, AssertUnwindSafe};
use std::sync::Once;
use vm_core::{AdviceInjector, DebugOptions, Felt, Program, StackInputs, StarkField};

static HOOK: Once = Once::new();
thread_local! {
    static IN_CATCH: std::cell::Cell<u32> = std::cell::Cell::new(0);
    pub static LAST_PANIC: std::cell::RefCell<String> = std::cell::RefCell::new(String::new());
}

/// install a panic hook that records the message (with location) instead of printing it
pub fn quiet_panics() {
    HOOK.call_once(|| {
        std::panic::set_hook(Box::new(|info| {
            let loc = info.location().map(|l| format!("{}:{}", l.file(), l.line())).unwrap_or_default();
            let msg = if let Some(s) = info.payload().downcast_ref::<&str>() {
                s.to_string()
            } else if let Some(s) = info.payload().downcast_ref::<String>() {
                s.clone()
            } else {
                "<non-string panic>".to_string()
            };
            if IN_CATCH.with(|c| c.get()) == 0 {
                eprintln!("HARNESS PANIC: {} @ {}", msg, loc);
            }
            // panics raised inside the standard library (arithmetic overflow in `pow`, slice
            // indexing, ...) carry a location in /rustc/...: attribute them to the first frame
            // that belongs to the code under test or its STARK dependency
            let mut loc = loc;
            if loc.starts_with("/rustc/") || (loc.contains("/rustlib/src/rust/library/") && loc.contains("/toolchains/")) {
                let bt = std::backtrace::Backtrace::force_capture().to_string();
                if std::env::var("VERIF_DEBUG_BT").is_ok() {
                    eprintln!("{bt}");
                }
                let owner = bt
                    .lines()
                    .filter_map(|l| {
                        let l = l.trim();
                        // "at <path>:line:col" lines (builds with line tables): the crate is read
                        // off the path
                        if let Some(path) = l.strip_prefix("at ") {
                            if let Some(rest) = path.splitn(2, "/registry/src/").nth(1) {
                                let dir = rest.split('/').nth(1)?;
                                // "winter-air-0.8.3" -> "winter_air"
                                let name: Vec<&str> = dir.split('-').take_while(|p| !p.chars().next().map(|c| c.is_ascii_digit()).unwrap_or(true)).collect();
                                let name = name.join("_");
                                if name.starts_with("winter") || name.starts_with("miden") {
                                    return Some(name);
                                }
                                return None;
                            }
                            if let Some(rest) = path.strip_prefix("/repo/") {
                                let c = rest.split('/').next()?;
                                return Some(match c {
                                    "core" => "miden_core".to_string(),
                                    "miden" => "miden_vm".to_string(),
                                    other => format!("miden_{other}"),
                                });
                            }
                            return None;
                        }
                        let name = l.splitn(2, ": ").nth(1)?;
                        for k in ["winter_air", "winter_fri", "winter_verifier", "winter_prover", "winter_crypto", "winter_math", "winter_utils", "miden_crypto", "miden_air", "miden_core", "miden_processor", "miden_assembly", "miden_verifier", "miden_prover", "miden_stdlib"] {
                            if name.starts_with(k) || name.starts_with(&format!("<{k}")) || name.contains(&format!(" as {k}")) {
                                return Some(k.to_string());
                            }
                        }
                        None
                    })
                    .next()
                    .unwrap_or_else(|| "unknown".to_string());
                let tail = loc.splitn(2, "/library/").nth(1).unwrap_or(&loc).to_string();
                loc = format!("[{}]/std/{}", owner.replace('_', "-"), tail);
            }
            LAST_PANIC.with(|p| *p.borrow_mut() = format!("{} @ {}", msg, loc));
        }));
    });
}

pub fn catch<T>(f: impl FnOnce() -> T) -> Result<T, String> {
    quiet_panics();
    IN_CATCH.with(|c| c.set(c.get() + 1));
    let r = catch_unwind(AssertUnwindSafe(f));
    IN_CATCH.with(|c| c.set(c.get() - 1));
    match r {
        Ok(v) => Ok(v),
        Err(_) => Err(LAST_PANIC.with(|p| p.borrow().clone())),
    }
}

// ---- hosts -------------------------------------------------------------------------------------

#[derive(Clone, Debug, Default)]
pub struct HostLog {
    pub events: Vec<(u32, u32, u32)>, // (kind 0=event 1=trace 2=debug 3=set_advice 4=get_advice, id, clk)
}

/// DefaultHost behaviour without printing; records callbacks.
pub struct QuietHost {
    pub adv: MemAdviceProvider,
    pub log: HostLog,
}

impl QuietHost {
    pub fn new(inputs: AdviceInputs) -> Self {
        QuietHost { adv: MemAdviceProvider::from(inputs), log: HostLog::default() }
    }
}

impl Host for QuietHost {
    fn get_advice<S: ProcessState>(&mut self, process: &S, extractor: AdviceExtractor) -> Result<HostResponse, ExecutionError> {
        self.log.events.push((4, 0, process.clk()));
        self.adv.get_advice(process, &extractor)
    }
    fn set_advice<S: ProcessState>(&mut self, process: &S, injector: AdviceInjector) -> Result<HostResponse, ExecutionError> {
        self.log.events.push((3, 0, process.clk()));
        self.adv.set_advice(process, &injector)
    }
    fn on_event<S: ProcessState>(&mut self, process: &S, event_id: u32) -> Result<HostResponse, ExecutionError> {
        self.log.events.push((0, event_id, process.clk()));
        Ok(HostResponse::None)
    }
    fn on_debug<S: ProcessState>(&mut self, process: &S, _options: &DebugOptions) -> Result<HostResponse, ExecutionError> {
        self.log.events.push((2, 0, process.clk()));
        Ok(HostResponse::None)
    }
    fn on_trace<S: ProcessState>(&mut self, process: &S, trace_id: u32) -> Result<HostResponse, ExecutionError> {
        self.log.events.push((1, trace_id, process.clk()));
        Ok(HostResponse::None)
    }
}

// ---- cases -------------------------------------------------------------------------------------

/// A concrete, replayable execution case.
#[derive(Clone, Debug, Default)]
pub struct Case {
    pub src: String,
    pub kernel: Option<String>,
    /// extra library modules: (path, source)
    pub modules: Vec<(String, String)>,
    pub use_stdlib: bool,
    /// operand stack, top first
    pub stack: Vec<u64>,
    /// advice stack, first popped first
    pub adv: Vec<u64>,
    pub adv_map: BTreeMap<[u64; 4], Vec<u64>>,
    /// merkle trees to load into the store: list of leaves per tree (power of two)
    pub trees: Vec<Vec<[u64; 4]>>,
    /// sparse Merkle tree (key, value) entries: the tree's nodes go into the store and its leaves
    /// into the advice map, the way the standard library's SMT procedures expect them
    pub smt: Option<Vec<([u64; 4], [u64; 4])>>,
}

impl Case {
    pub fn to_json(&self) -> serde_json::Value {
        serde_json::json!({
            "src": self.src,
            "kernel": self.kernel,
            "modules": self.modules,
            "use_stdlib": self.use_stdlib,
            "stack_top_first": self.stack,
            "advice_stack": self.adv,
            "advice_map": self.adv_map.iter().map(|(k, v)| (k.to_vec(), v.clone())).collect::<Vec<_>>(),
            "trees": self.trees.iter().map(|t| t.iter().map(|w| w.to_vec()).collect::<Vec<_>>()).collect::<Vec<_>>(),
            "smt": self.smt.as_ref().map(|e| e.iter().map(|(k, v)| vec![k.to_vec(), v.to_vec()]).collect::<Vec<_>>()),
        })
    }
    pub fn from_json(v: &serde_json::Value) -> Self {
        let u64s = |x: &serde_json::Value| -> Vec<u64> {
            x.as_array().map(|a| a.iter().map(|e| e.as_u64().unwrap_or(0)).collect()).unwrap_or_default()
        };
        let w4 = |x: &serde_json::Value| -> [u64; 4] {
            let v = u64s(x);
            [v[0], v[1], v[2], v[3]]
        };
        Case {
            src: v["src"].as_str().unwrap_or("").to_string(),
            kernel: v["kernel"].as_str().map(|s| s.to_string()),
            modules: v["modules"]
                .as_array()
                .map(|a| {
                    a.iter()
                        .map(|e| (e[0].as_str().unwrap_or("").to_string(), e[1].as_str().unwrap_or("").to_string()))
                        .collect()
                })
                .unwrap_or_default(),
            use_stdlib: v["use_stdlib"].as_bool().unwrap_or(false),
            stack: u64s(&v["stack_top_first"]),
            adv: u64s(&v["advice_stack"]),
            adv_map: v["advice_map"]
                .as_array()
                .map(|a| a.iter().map(|e| (w4(&e[0]), u64s(&e[1]))).collect())
                .unwrap_or_default(),
            trees: v["trees"]
                .as_array()
                .map(|a| a.iter().map(|t| t.as_array().unwrap().iter().map(|w| w4(w)).collect()).collect())
                .unwrap_or_default(),
            smt: v["smt"].as_array().map(|a| a.iter().map(|e| (w4(&e[0]), w4(&e[1]))).collect()),
        }
    }

    pub fn stack_inputs(&self) -> StackInputs {
        // try_from_values wants bottom first
        StackInputs::try_from_values(self.stack.iter().rev().copied()).expect("generator produces canonical values")
    }

    pub fn advice_inputs(&self) -> AdviceInputs {
        use vm_core::crypto::merkle::{MerkleStore, MerkleTree};
        let mut store = MerkleStore::new();
        for t in &self.trees {
            let leaves: Vec<vm_core::Word> = t.iter().map(|w| w.map(Felt::new)).collect();
            if let Ok(mt) = MerkleTree::new(leaves) {
                store.extend(mt.inner_nodes());
            }
        }
        let mut map: Vec<(vm_core::crypto::hash::RpoDigest, Vec<Felt>)> = self
            .adv_map
            .iter()
            .map(|(k, v)| {
                let key: vm_core::Word = k.map(Felt::new);
                (key.into(), v.iter().map(|x| Felt::new(*x)).collect::<Vec<_>>())
            })
            .collect();
        if let Some(entries) = &self.smt {
            use vm_core::crypto::merkle::Smt;
            let smt = Smt::with_entries(entries.iter().map(|(k, v)| (k.map(Felt::new).into(), v.map(Felt::new)))).expect("distinct keys");
            let s2: MerkleStore = MerkleStore::from(&smt);
            store.extend(s2.inner_nodes());
            for (_, leaf) in smt.leaves() {
                map.push((leaf.hash(), leaf.to_elements()));
            }
        }
        AdviceInputs::default()
            .with_stack(self.adv.iter().map(|v| Felt::new(*v)))
            .with_map(map)
            .with_merkle_store(store)
    }

    pub fn host(&self) -> QuietHost {
        QuietHost::new(self.advice_inputs())
    }
}

pub struct LibMod {
    pub path: String,
    pub src: String,
}

pub fn assembler_for(case: &Case, debug: bool) -> Result<Assembler, String> {
    let mut a = Assembler::default().with_debug_mode(debug);
    if case.use_stdlib {
        a = a.with_library(&stdlib::StdLibrary::default()).map_err(|e| format!("{e}"))?;
    }
    if !case.modules.is_empty() {
        let lib = build_library("vlib", &case.modules)?;
        a = a.with_library(&lib).map_err(|e| format!("{e}"))?;
    }
    if let Some(k) = &case.kernel {
        a = a.with_kernel(k).map_err(|e| format!("{e}"))?;
    }
    Ok(a)
}

pub fn build_library(ns: &str, modules: &[(String, String)]) -> Result<assembly::MaslLibrary, String> {
    use assembly::{ast::ModuleAst, LibraryNamespace, LibraryPath, MaslLibrary, Module, Version};
    let namespace = LibraryNamespace::new(ns).map_err(|e| format!("{e}"))?;
    let mut mods = vec![];
    for (path, src) in modules {
        let ast = ModuleAst::parse(src).map_err(|e| format!("{e}"))?;
        let p = LibraryPath::new(path).map_err(|e| format!("{e}"))?;
        mods.push(Module::new(p, ast));
    }
    MaslLibrary::new(namespace, Version::default(), false, mods, vec![]).map_err(|e| format!("{e}"))
}

pub enum Assembled {
    Ok(Program),
    Err(String),
    Panic(String),
}

pub fn assemble(case: &Case, debug: bool) -> Assembled {
    let r = catch(|| {
        let a = assembler_for(case, debug)?;
        a.compile(&case.src).map_err(|e| format!("{e}"))
    });
    match r {
        Ok(Ok(p)) => Assembled::Ok(p),
        Ok(Err(e)) => Assembled::Err(e),
        Err(p) => Assembled::Panic(p),
    }
}

pub enum Ran {
    Ok(Box<ExecutionTrace>, HostLog),
    Err(ExecutionError, HostLog),
    Panic(String),
}

/// Cycle cap applied to executions that come with the default (2^32 - 1) limit: programs the
/// harness generates need a few thousand cycles, so a run that gets here is a runaway loop of a
/// broken VM and comes back as a cycle-limit error (which the oracles then report) instead of
/// exhausting the machine's memory.
pub const CYCLE_CAP: u32 = 1 << 20;

pub fn capped(opts: ExecutionOptions) -> ExecutionOptions {
    if opts.max_cycles() == u32::MAX {
        let mut o = ExecutionOptions::new(Some(CYCLE_CAP), opts.expected_cycles().min(CYCLE_CAP), opts.enable_tracing()).expect("options");
        if opts.enable_tracing() {
            o = o.with_tracing();
        }
        o
    } else {
        opts
    }
}

pub fn run(program: &Program, case: &Case, opts: ExecutionOptions) -> Ran {
    let opts = capped(opts);
    let mut host = case.host();
    let inputs = case.stack_inputs();
    let r = catch(|| processor::execute(program, inputs, &mut host, opts));
    match r {
        Ok(Ok(t)) => Ran::Ok(Box::new(t), host.log),
        Ok(Err(e)) => Ran::Err(e, host.log),
        Err(p) => Ran::Panic(p),
    }
}

pub fn outputs_top_first(t: &ExecutionTrace) -> Vec<u64> {
    t.stack_outputs().stack().to_vec()
}

pub fn felt_u64(f: Felt) -> u64 {
    f.as_int()
}
