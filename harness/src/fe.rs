//! Goldilocks field arithmetic written from the definition (p = 2^64 - 2^32 + 1), independent of
//! the code under test. Values are canonical u64 < P.

pub const P: u64 = 0xFFFF_FFFF_0000_0001;

#[inline]
pub fn add(a: u64, b: u64) -> u64 {
    ((a as u128 + b as u128) % P as u128) as u64
}
#[inline]
pub fn sub(a: u64, b: u64) -> u64 {
    ((a as u128 + P as u128 - b as u128) % P as u128) as u64
}
#[inline]
pub fn mul(a: u64, b: u64) -> u64 {
    ((a as u128 * b as u128) % P as u128) as u64
}
#[inline]
pub fn neg(a: u64) -> u64 {
    if a == 0 {
        0
    } else {
        P - a
    }
}
pub fn pow(mut b: u64, mut e: u64) -> u64 {
    let mut r = 1u64;
    while e > 0 {
        if e & 1 == 1 {
            r = mul(r, b);
        }
        b = mul(b, b);
        e >>= 1;
    }
    r
}
/// multiplicative inverse; caller guarantees a != 0
pub fn inv(a: u64) -> u64 {
    pow(a, P - 2)
}

// quadratic extension F_p[x]/(x^2 - x + 2): elements (a0, a1) = a0 + a1*x
pub fn ext2_mul(a: (u64, u64), b: (u64, u64)) -> (u64, u64) {
    // (a0 + a1 x)(b0 + b1 x) = a0b0 + (a0b1 + a1b0) x + a1b1 x^2, x^2 = x - 2
    let a0b0 = mul(a.0, b.0);
    let a1b1 = mul(a.1, b.1);
    let c0 = sub(a0b0, mul(2, a1b1));
    let c1 = add(add(mul(a.0, b.1), mul(a.1, b.0)), a1b1);
    (c0, c1)
}
pub fn ext2_inv(a: (u64, u64)) -> (u64, u64) {
    // conjugate of a0 + a1 x is (a0 + a1) - a1 x ; norm = a0^2 + a0a1 + 2a1^2
    let norm = add(add(mul(a.0, a.0), mul(a.0, a.1)), mul(2, mul(a.1, a.1)));
    let ni = inv(norm);
    (mul(add(a.0, a.1), ni), mul(neg(a.1), ni))
}

/// boundary values used all over the generators
pub const BOUNDARY: [u64; 16] = [
    0,
    1,
    2,
    3,
    (1 << 16) - 1,
    1 << 16,
    1 << 31,
    (1 << 32) - 1,
    1 << 32,
    (1 << 32) + 1,
    P - 1,
    P - 2,
    P - (1 << 32),
    1 << 63,
    (1 << 48) + 12345,
    0xFFFF_FFFE_FFFF_FFFF,
];
pub const BOUNDARY_U32: [u64; 12] = [
    0,
    1,
    2,
    31,
    32,
    (1 << 16) - 1,
    1 << 16,
    (1 << 31) - 1,
    1 << 31,
    (1 << 32) - 2,
    (1 << 32) - 1,
    0x8000_0001,
];
