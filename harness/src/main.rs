use vharness::engine::{Ctx, Tier};
use vharness::*;

fn main() {
    let args: Vec<String> = std::env::args().collect();
    if args.len() < 2 {
        eprintln!("usage: vcheck <PROP> [--tier quick|thorough] [--replay FILE]");
        std::process::exit(2);
    }
    let prop = args[1].clone();
    if prop == "c04-survey" {
        vm::quiet_panics();
        props::c04::survey(args[2].parse().unwrap(), args.get(3).map(|s| s.parse().unwrap()).unwrap_or(1));
        return;
    }
    if prop == "emit-seeds" {
        // vcheck emit-seeds <target> <dir>: starting corpus for a coverage-guided target
        vm::quiet_panics();
        let (target, dir) = (args[2].as_str(), args[3].as_str());
        std::fs::create_dir_all(dir).unwrap();
        let mut n = 0;
        let mut put = |bytes: &[u8]| {
            if !bytes.is_empty() {
                std::fs::write(format!("{dir}/seed-{n:04}"), bytes).unwrap();
                n += 1;
            }
        };
        let choice_vec = |i: u64, len: usize| -> Vec<u16> {
            let mut h = 0x9E37_79B9_7F4A_7C15u64.wrapping_mul(i + 1);
            (0..len)
                .map(|_| {
                    h ^= h << 13;
                    h ^= h >> 7;
                    h ^= h << 17;
                    h as u16
                })
                .collect()
        };
        match target {
            "decode_any" => {
                for kind in 0..props::c19::KINDS.len() {
                    for i in 0..6u64 {
                        let seed = choice_vec(i * 31 + kind as u64, 300);
                        let mut ch = gen::Ch::new(&seed);
                        let enc = props::c19::valid_encoding(kind, &mut ch, &seed);
                        if enc.is_empty() || enc.len() > 60_000 {
                            continue;
                        }
                        let mut b = vec![kind as u8];
                        b.extend(enc);
                        put(&b);
                        if kind == 0 {
                            break;
                        }
                    }
                }
            }
            "asm_exec" => {
                for i in 0..24u64 {
                    let v = choice_vec(i, 60 + (i as usize * 37) % 500);
                    let b: Vec<u8> = v.iter().flat_map(|c| c.to_le_bytes()).collect();
                    put(&b);
                }
            }
            "ast_text" => {
                for i in 0..24u64 {
                    let seed = choice_vec(i, 300);
                    let s = srcgen::generate(&seed, &srcgen::SrcCfg { max_items: 30, max_nest: 3, module: false, kernel: false, imports: true, docs: true }, &[], true);
                    if s.text.len() < 4000 {
                        put(s.text.as_bytes());
                    }
                }
                put(b"begin push.1 push.2 add end");
                put(b"proc.foo.2 loc_store.0 loc_load.1 end begin exec.foo if.true push.1 else push.2 end while.true push.0 end repeat.3 dup end end");
                put(b"use.std::math::u64\nbegin push.1.2.3.4 exec.u64::wrapping_add end");
            }
            _ => {}
        }
        println!("{n} seeds in {dir}");
        return;
    }
    if prop == "c19-child" {
        props::c19::child(args[2].parse().unwrap());
        return;
    }
    if prop == "dev-rt" {
        use assembly::ast::{AstSerdeOptions, ProgramAst};
        use vm_core::utils::SliceReader;
        let src = std::fs::read_to_string(&args[2]).unwrap();
        let ast = ProgramAst::parse(&src).unwrap();
        let mut loc = Vec::new();
        ast.write_source_locations(&mut loc);
        let mut back = ProgramAst::from_bytes(&ast.to_bytes(AstSerdeOptions::new(true))).unwrap();
        back.load_source_locations(&mut SliceReader::new(&loc)).unwrap();
        println!("PartialEq: {}", ast == back);
        let strip = |s: String| -> String {
            // drop location lists from the debug output
            let mut out = String::new();
            let mut rest = s.as_str();
            while let Some(i) = rest.find("locations: [") {
                out.push_str(&rest[..i]);
                let j = rest[i..].find(']').unwrap() + i;
                rest = &rest[j + 1..];
            }
            out.push_str(rest);
            out
        };
        let (a, b) = (strip(format!("{:?}", ast)), strip(format!("{:?}", back)));
        if a == b {
            println!("EQUAL");
        } else {
            let i = a.bytes().zip(b.bytes()).position(|(x, y)| x != y).unwrap_or(0);
            println!("DIFF at {}:\n  orig: {}\n  back: {}", i, &a[i.saturating_sub(150)..(i + 150).min(a.len())], &b[i.saturating_sub(150)..(i + 150).min(b.len())]);
        }
        return;
    }
    if prop == "dev" {
        dev(&args[2..]);
        return;
    }
    let mut tier = match std::env::var("VERIF_TIER").as_deref() {
        Ok("thorough") => Tier::Thorough,
        _ => Tier::Quick,
    };
    let mut replay: Option<String> = None;
    let mut i = 2;
    while i < args.len() {
        match args[i].as_str() {
            "--tier" => {
                tier = if args.get(i + 1).map(|s| s.as_str()) == Some("thorough") { Tier::Thorough } else { Tier::Quick };
                i += 1;
            }
            "--replay" => {
                replay = args.get(i + 1).cloned();
                i += 1;
            }
            _ => {}
        }
        i += 1;
    }
    let seed: u64 = std::env::var("VERIF_SEED").ok().and_then(|s| s.parse().ok()).unwrap_or(0);
    vm::quiet_panics();
    let mut ctx = Ctx::new(&prop, tier, seed);
    if let Some(path) = replay {
        ctx.strict = true;
        let txt = std::fs::read_to_string(&path).expect("replay file");
        let v: serde_json::Value = serde_json::from_str(&txt).expect("replay json");
        match prop.as_str() {
            "C01" => props::c01::replay(&ctx, &v),
            "C02" => props::c02::replay(&ctx, &v),
            "C03" => props::c03::replay(&ctx, &v),
            "C04" => props::c04::replay(&ctx, &v),
            "C05" => props::c05::replay(&ctx, &v),
            "C06" => props::c06::replay(&ctx, &v),
            "C07" => props::c07::replay(&ctx, &v),
            "C08" => props::c08::replay(&ctx, &v),
            "C09" => props::c09::replay(&ctx, &v),
            "C10" => props::c10::replay(&ctx, &v),
            "C11" => props::c11::replay(&ctx, &v),
            "C12" => props::c12::replay(&ctx, &v),
            "C13" => props::c13::replay(&ctx, &v),
            "C14" => props::c14::replay(&ctx, &v),
            "C15" => props::c15::replay(&ctx, &v),
            "C16" => props::c16::replay(&ctx, &v),
            "C17" => props::c17::replay(&ctx, &v),
            "C18" => props::c18::replay(&ctx, &v),
            "C19" => props::c19::replay(&ctx, &v),
            _ => {
                eprintln!("unknown property {prop}");
                std::process::exit(2);
            }
        }
    } else {
        match prop.as_str() {
            "C01" => props::c01::run(&ctx),
            "C02" => props::c02::run(&ctx),
            "C03" => props::c03::run(&ctx),
            "C04" => props::c04::run(&ctx),
            "C05" => props::c05::run(&ctx),
            "C06" => props::c06::run(&ctx),
            "C07" => props::c07::run(&ctx),
            "C08" => props::c08::run(&ctx),
            "C09" => props::c09::run(&ctx),
            "C10" => props::c10::run(&ctx),
            "C11" => props::c11::run(&ctx),
            "C12" => props::c12::run(&ctx),
            "C13" => props::c13::run(&ctx),
            "C14" => props::c14::run(&ctx),
            "C15" => props::c15::run(&ctx),
            "C16" => props::c16::run(&ctx),
            "C17" => props::c17::run(&ctx),
            "C18" => props::c18::run(&ctx),
            "C19" => props::c19::run(&ctx),
            _ => {
                eprintln!("unknown property {prop}");
                std::process::exit(2);
            }
        }
    }
    std::process::exit(ctx.finish());
}

/// developer helper: vcheck dev <source-file> [stack values top first...]
fn dev(args: &[String]) {
    use winter_prover::Trace;
    let src = std::fs::read_to_string(&args[0]).expect("source file");
    let stack: Vec<u64> = args[1..].iter().filter_map(|s| s.parse().ok()).collect();
    let kernel = std::env::var("DEV_KERNEL").ok().map(|p| std::fs::read_to_string(p).expect("kernel file"));
    let case = vm::Case { src, stack, kernel, use_stdlib: std::env::var("DEV_STDLIB").is_ok(), ..Default::default() };
    let p = match vm::assemble(&case, false) {
        vm::Assembled::Ok(p) => p,
        vm::Assembled::Err(e) => return println!("asm error: {e}"),
        vm::Assembled::Panic(p) => return println!("asm PANIC: {p}"),
    };
    println!("hash {:?}", p.hash());
    match vm::run(&p, &case, processor::ExecutionOptions::default()) {
        vm::Ran::Ok(mut t, _) => {
            let s = *t.trace_len_summary();
            println!("cycles {} range {} chiplets {} n {}", s.main_trace_len(), s.range_trace_len(), s.chiplets_trace_len().trace_len(), t.length());
            println!("outputs {:?}", t.stack_outputs().stack());
            let chal = common::challenges(&[1, 2, 3], 7);
            match props::c03::check_trace("DEV", &case, &p, &mut t, &chal, 0) {
                Ok(n) => println!("AIR ok ({} evaluations)", n),
                Err(v) => println!("AIR: {} {}", v.sig, v.msg),
            }
            if std::env::var("DEV_KERNEL").is_ok() {
                use vm_core::FieldElement;
                let chal = common::challenges(&[5, 0, 77], 5);
                let aux = t.build_aux_segment::<vm_core::Felt>(&[], &chal).unwrap();
                let last = t.length() - 2;
                let bus = aux.get(tracekit::AUX_CHIP_BUS, last);
                let vt = aux.get(tracekit::AUX_SIBLING, last);
                println!("bus_final {} vt_final {}", bus, vt);
                for (i, d) in p.kernel().proc_hashes().iter().enumerate() {
                    let r: [vm_core::Felt; 4] = (*d).into();
                    for a in 0..3u64 {
                        let v = chal[0] + chal[1] * vm_core::Felt::new(a) + chal[2] * r[0] + chal[3] * r[1] + chal[4] * r[2] + chal[5] * r[3];
                        println!("  proc {} addr {} v {} v^-1 {}", i, a, v, v.inv());
                    }
                }
            }
            if let Ok(colname) = std::env::var("DEV_AUX") {
                let col: usize = colname.parse().unwrap();
                let chal = common::challenges(&[5, 0, 77], 5);
                let aux = t.build_aux_segment::<vm_core::Felt>(&[], &chal).unwrap();
                let main = t.main_segment();
                let mut prev = aux.get(col, 0);
                println!("row 0 aux {}", prev);
                for r in 1..t.length() - 1 {
                    let v = aux.get(col, r);
                    if v != prev {
                        let g = |c: usize, r: usize| tracekit::col_u64(main, c, r);
                        println!(
                            "row {} aux {} (after op {:#09b} at row {}: addr {} addr' {} h1' {} h4..7 {:?} groupcnt {})",
                            r, v, tracekit::opcode_at(main, r - 1), r - 1, g(tracekit::DEC_ADDR, r - 1), g(tracekit::DEC_ADDR, r), g(tracekit::DEC_H + 1, r),
                            [g(tracekit::DEC_H + 4, r - 1), g(tracekit::DEC_H + 5, r - 1), g(tracekit::DEC_H + 6, r - 1), g(tracekit::DEC_H + 7, r - 1)], g(tracekit::DEC_GROUP_COUNT, r - 1)
                        );
                        if col == 0 {
                            use vm_core::FieldElement;
                            let f = |x: u64| vm_core::Felt::new(x);
                            let ratio = v / prev;
                            let (a, a2, h1n) = (g(tracekit::DEC_ADDR, r - 1), g(tracekit::DEC_ADDR, r), g(tracekit::DEC_H + 1, r));
                            let val = |b: u64, p: u64, l: u64| chal[0] + chal[1] * f(b) + chal[2] * f(p) + chal[3] * f(l);
                            let cands = [
                                ("add(a',a,0)", val(a2, a, 0)),
                                ("rem(a,a',0)", val(a, a2, 0).inv()),
                                ("rem(a,a',1)", val(a, a2, 1).inv()),
                                ("respan", val(a2, h1n, 0) / val(a, h1n, 0)),
                            ];
                            let m: Vec<&str> = cands.iter().filter(|c| c.1 == ratio).map(|c| c.0).collect();
                            println!("      ratio matches {:?}", m);
                        }
                        prev = v;
                    }
                }
            }
            match props::c12::check_case_a(&case, &p, &mut t, 5, None) {
                Ok(_) => println!("C12-A ok"),
                Err(v) => println!("C12-A: {} {}", v.sig, v.msg),
            }
        }
        vm::Ran::Err(e, _) => println!("exec error: {e}"),
        vm::Ran::Panic(p) => println!("exec PANIC: {p}"),
    }
}
