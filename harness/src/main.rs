mod common;
mod diff;
mod engine;
mod fe;
mod gen;
mod model;
mod props;
mod tracekit;
mod vm;

use engine::{Ctx, Tier};

fn main() {
    let args: Vec<String> = std::env::args().collect();
    if args.len() < 2 {
        eprintln!("usage: vcheck <PROP> [--tier quick|thorough] [--replay FILE]");
        std::process::exit(2);
    }
    let prop = args[1].clone();
    if prop == "dev" {
        dev(&args[2..]);
        return;
    }
    let mut tier = match std::env::var("VERIF_TIER").as_deref() {
        Ok("thorough") => Tier::Thorough,
        _ => Tier::Quick,
    };
    let mut replay: Option<String> = None;
    let mut i = 2;
    while i < args.len() {
        match args[i].as_str() {
            "--tier" => {
                tier = if args.get(i + 1).map(|s| s.as_str()) == Some("thorough") { Tier::Thorough } else { Tier::Quick };
                i += 1;
            }
            "--replay" => {
                replay = args.get(i + 1).cloned();
                i += 1;
            }
            _ => {}
        }
        i += 1;
    }
    let seed: u64 = std::env::var("VERIF_SEED").ok().and_then(|s| s.parse().ok()).unwrap_or(0);
    vm::quiet_panics();
    let mut ctx = Ctx::new(&prop, tier, seed);
    if let Some(path) = replay {
        ctx.strict = true;
        let txt = std::fs::read_to_string(&path).expect("replay file");
        let v: serde_json::Value = serde_json::from_str(&txt).expect("replay json");
        match prop.as_str() {
            "C03" => props::c03::replay(&ctx, &v),
            "C05" => props::c05::replay(&ctx, &v),
            "C06" => props::c06::replay(&ctx, &v),
            _ => {
                eprintln!("unknown property {prop}");
                std::process::exit(2);
            }
        }
    } else {
        match prop.as_str() {
            "C03" => props::c03::run(&ctx),
            "C05" => props::c05::run(&ctx),
            "C06" => props::c06::run(&ctx),
            _ => {
                eprintln!("unknown property {prop}");
                std::process::exit(2);
            }
        }
    }
    std::process::exit(ctx.finish());
}

/// developer helper: vcheck dev <source-file> [stack values top first...]
fn dev(args: &[String]) {
    use winter_prover::Trace;
    let src = std::fs::read_to_string(&args[0]).expect("source file");
    let stack: Vec<u64> = args[1..].iter().filter_map(|s| s.parse().ok()).collect();
    let case = vm::Case { src, stack, ..Default::default() };
    let p = match vm::assemble(&case, false) {
        vm::Assembled::Ok(p) => p,
        vm::Assembled::Err(e) => return println!("asm error: {e}"),
        vm::Assembled::Panic(p) => return println!("asm PANIC: {p}"),
    };
    println!("hash {:?}", p.hash());
    match vm::run(&p, &case, processor::ExecutionOptions::default()) {
        vm::Ran::Ok(mut t, _) => {
            let s = *t.trace_len_summary();
            println!("cycles {} range {} chiplets {} n {}", s.main_trace_len(), s.range_trace_len(), s.chiplets_trace_len().trace_len(), t.length());
            println!("outputs {:?}", t.stack_outputs().stack());
            let chal = common::challenges(&[1, 2, 3], 7);
            match props::c03::check_trace("DEV", &case, &p, &mut t, &chal, 0) {
                Ok(n) => println!("AIR ok ({} evaluations)", n),
                Err(v) => println!("AIR: {} {}", v.sig, v.msg),
            }
        }
        vm::Ran::Err(e, _) => println!("exec error: {e}"),
        vm::Ran::Panic(p) => println!("exec PANIC: {p}"),
    }
}
