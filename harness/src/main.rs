mod diff;
mod engine;
mod fe;
mod gen;
mod model;
mod props;
mod vm;

use engine::{Ctx, Tier};

fn main() {
    let args: Vec<String> = std::env::args().collect();
    if args.len() < 2 {
        eprintln!("usage: vcheck <PROP> [--tier quick|thorough] [--replay FILE]");
        std::process::exit(2);
    }
    let prop = args[1].clone();
    let mut tier = match std::env::var("VERIF_TIER").as_deref() {
        Ok("thorough") => Tier::Thorough,
        _ => Tier::Quick,
    };
    let mut replay: Option<String> = None;
    let mut i = 2;
    while i < args.len() {
        match args[i].as_str() {
            "--tier" => {
                tier = if args.get(i + 1).map(|s| s.as_str()) == Some("thorough") { Tier::Thorough } else { Tier::Quick };
                i += 1;
            }
            "--replay" => {
                replay = args.get(i + 1).cloned();
                i += 1;
            }
            _ => {}
        }
        i += 1;
    }
    let seed: u64 = std::env::var("VERIF_SEED").ok().and_then(|s| s.parse().ok()).unwrap_or(0);
    vm::quiet_panics();
    let mut ctx = Ctx::new(&prop, tier, seed);
    if let Some(path) = replay {
        ctx.strict = true;
        let txt = std::fs::read_to_string(&path).expect("replay file");
        let v: serde_json::Value = serde_json::from_str(&txt).expect("replay json");
        match prop.as_str() {
            "C05" => props::c05::replay(&ctx, &v),
            _ => {
                eprintln!("unknown property {prop}");
                std::process::exit(2);
            }
        }
    } else {
        match prop.as_str() {
            "C05" => props::c05::run(&ctx),
            _ => {
                eprintln!("unknown property {prop}");
                std::process::exit(2);
            }
        }
    }
    std::process::exit(ctx.finish());
}
