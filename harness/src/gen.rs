//! Program generator driven by a vector of small integers ("choices") and stepped against the
//! reference model while generating, so that it constructs valid programs instead of filtering.

use crate::fe::{self, P};
use crate::model::*;
use crate::vm::Case;
use std::collections::BTreeSet;

pub struct Ch<'a> {
    v: &'a [u16],
    pos: usize,
}
impl<'a> Ch<'a> {
    pub fn new(v: &'a [u16]) -> Self {
        Ch { v, pos: 0 }
    }
    pub fn next(&mut self) -> u16 {
        let r = self.v.get(self.pos).copied().unwrap_or(0);
        self.pos += 1;
        r
    }
    pub fn exhausted(&self) -> bool {
        self.pos >= self.v.len()
    }
    /// monotone index in 0..n
    pub fn pick(&mut self, n: usize) -> usize {
        if n <= 1 {
            self.next();
            return 0;
        }
        ((self.next() as u64 * n as u64) >> 16) as usize
    }
    /// true with probability num/den (false for small choices)
    pub fn chance(&mut self, num: u32, den: u32) -> bool {
        (self.next() as u64 * den as u64) >> 16 >= (den - num) as u64
    }
    pub fn u64(&mut self) -> u64 {
        let a = self.next() as u64;
        let b = self.next() as u64;
        let c = self.next() as u64;
        let d = self.next() as u64;
        (a << 48) | (b << 32) | (c << 16) | d
    }
    pub fn felt(&mut self) -> u64 {
        match self.pick(4) {
            0 | 1 => fe::BOUNDARY[self.pick(fe::BOUNDARY.len())],
            2 => self.next() as u64,
            _ => self.u64() % P,
        }
    }
    pub fn u32v(&mut self) -> u64 {
        match self.pick(3) {
            0 | 1 => fe::BOUNDARY_U32[self.pick(fe::BOUNDARY_U32.len())],
            _ => self.u64() & 0xFFFF_FFFF,
        }
    }
}

#[derive(Clone, Debug)]
pub struct GenCfg {
    pub max_nodes: usize,
    pub max_nest: usize,
    pub ctrl: bool,
    pub procs: bool,
    pub calls: bool,
    pub kernel: bool,
    pub dyns: bool,
    pub mem: bool,
    pub locals: bool,
    pub adv: bool,
    pub crypto: bool,
    pub decorators: bool,
    pub env: bool,
    /// generate exactly one documented failure and stop
    pub fail: bool,
    pub max_inputs: usize,
    /// weights: field, u32, stack, push, mem, adv, crypto, env/decor
    pub w: [u32; 8],
    /// avoid constructs listed here (known-finding exclusions), counted in `excluded`
    pub avoid: BTreeSet<&'static str>,
    /// probability (out of 4) of creating kernel procedures up front
    pub kernel_pre: u32,
}

impl Default for GenCfg {
    fn default() -> Self {
        GenCfg {
            max_nodes: 60,
            max_nest: 3,
            ctrl: true,
            procs: true,
            calls: true,
            kernel: true,
            dyns: true,
            mem: true,
            locals: true,
            adv: true,
            crypto: true,
            decorators: true,
            env: true,
            fail: false,
            max_inputs: 24,
            w: [10, 10, 10, 4, 6, 3, 2, 2],
            avoid: BTreeSet::new(),
            kernel_pre: 1,
        }
    }
}

#[derive(Clone, Debug, PartialEq, Eq)]
pub enum Expect {
    /// final stack, top first (may contain symbolic values >= P)
    Ok(Vec<u64>),
    Fail(Fail),
}

#[derive(Clone, Debug)]
pub struct Generated {
    pub prog: Prog,
    pub case: Case,
    pub expect: Expect,
    pub ops: BTreeSet<Op>,
    pub classes: BTreeSet<&'static str>,
    pub max_depth: usize,
    pub ctx_switches: usize,
    pub excluded: usize,
    /// final stack known only up to trailing zeros (see Model::uncertain)
    pub uncertain: bool,
    /// final memory by (model ctx, addr)
    pub final_mem: Vec<((u32, u64), [u64; 4])>,
    pub n_ctx: u32,
}

const CNT_BASE: u64 = 5000;

pub struct Gen<'a> {
    pub ch: Ch<'a>,
    pub cfg: GenCfg,
    pub prog: Prog,
    pub budget: usize,
    pub failed: Option<Fail>,
    pub classes: BTreeSet<&'static str>,
    pub excluded: usize,
    n_loops: u64,
    in_kernel: bool,
    cur_proc_limit: usize,
    /// 0 while generating main, > 0 inside a procedure body
    gen_depth: usize,
    /// > 0 where the same code will run on states other than the one it is generated on
    force_fresh: usize,
    /// Merkle trees loaded into the advice provider: leaves per tree
    pub trees: Vec<Vec<[u64; 4]>>,
    /// roots known to the store (initial ones and those produced by mtree_set) with their depth
    roots: Vec<([u64; 4], u64)>,
    /// advice map entries loaded into the advice provider
    pub map_entries: Vec<([u64; 4], Vec<u64>)>,
}

#[derive(Clone, Copy, PartialEq, Eq, Debug)]
enum Slot {
    Any,
    Bin,
    U32,
    U32Nz,
    Nz,
    Le63,
    Le31,
    Bits(u64),
    Addr,
}

fn slot_ok(s: Slot, v: u64) -> bool {
    if v >= P {
        return false;
    }
    match s {
        Slot::Any => true,
        Slot::Bin => v <= 1,
        Slot::U32 => v >> 32 == 0,
        Slot::U32Nz => v >> 32 == 0 && v != 0,
        Slot::Nz => v != 0,
        Slot::Le63 => v <= 63,
        Slot::Le31 => v <= 31,
        Slot::Bits(b) => b >= 64 || v >> b == 0,
        Slot::Addr => v >> 32 == 0,
    }
}

fn hex_be(v: u64, ch: &mut Ch) -> String {
    // big-endian short hex with an even number of digits
    let s = format!("{:x}", v);
    let mut s = if s.len() % 2 == 1 { format!("0{}", s) } else { s };
    if ch.chance(1, 3) && s.len() < 16 {
        s = format!("{:0>16}", s);
    }
    format!("0x{}", s)
}

fn long_hex_word(w: &[u64]) -> String {
    let mut s = String::from("0x");
    for v in w {
        for b in v.to_le_bytes() {
            s.push_str(&format!("{:02x}", b));
        }
    }
    s
}

impl<'a> Gen<'a> {
    pub fn new(choices: &'a [u16], cfg: GenCfg) -> Self {
        Gen {
            ch: Ch::new(choices),
            budget: cfg.max_nodes,
            cfg,
            prog: Prog::default(),
            failed: None,
            classes: BTreeSet::new(),
            excluded: 0,
            n_loops: 0,
            in_kernel: false,
            cur_proc_limit: 0,
            gen_depth: 0,
            force_fresh: 0,
            trees: vec![],
            roots: vec![],
            map_entries: vec![],
        }
    }

    fn fresh(&mut self, s: Slot) -> u64 {
        match s {
            Slot::Any => self.ch.felt(),
            Slot::Bin => self.ch.pick(2) as u64,
            Slot::U32 | Slot::Addr => self.ch.u32v(),
            Slot::U32Nz => self.ch.u32v().max(1),
            Slot::Nz => self.ch.felt().max(1),
            Slot::Le63 => [0, 1, 31, 32, 62, 63][self.ch.pick(6)],
            Slot::Le31 => [0, 1, 15, 16, 30, 31][self.ch.pick(6)],
            Slot::Bits(b) => {
                let v = self.ch.felt();
                if b >= 64 {
                    v
                } else if b == 0 {
                    0
                } else {
                    v & ((1u64 << b) - 1)
                }
            }
        }
    }

    /// a value violating the slot (for documented failures)
    fn bad(&mut self, s: Slot) -> Option<u64> {
        Some(match s {
            Slot::Bin => [2, 3, P - 1, 1 << 32][self.ch.pick(4)],
            Slot::U32 | Slot::Addr => [1 << 32, (1 << 32) + 1, P - 1, 1 << 63][self.ch.pick(4)],
            Slot::U32Nz | Slot::Nz => 0,
            Slot::Le63 => [64, 65, 1 << 32, P - 1][self.ch.pick(4)],
            _ => return None,
        })
    }

    fn push_ins(&mut self, vals: Vec<u64>) -> Ins {
        // render a push of 1..16 values in one of the documented forms
        let form = self.ch.pick(6);
        let txt = if vals.len() == 4 && form == 5 && vals.iter().all(|v| *v < P) {
            format!("push.{}", long_hex_word(&vals))
        } else {
            let mut parts = vec![];
            for v in &vals {
                let hex = form == 3 || (form == 4 && self.ch.chance(1, 2));
                parts.push(if hex { hex_be(*v, &mut self.ch) } else { format!("{}", v) });
            }
            format!("push.{}", parts.join("."))
        };
        Ins { op: Op::Push, imm: None, vals, txt }
    }

    /// Prepare operands: `slots[0]` is the top-of-stack operand. Emits pushes for the operands
    /// that cannot (or should not) be reused. Returns false if impossible.
    fn prep(&mut self, m: &mut Model, slots: &[Slot], out: &mut Vec<Node>, violate: Option<usize>) {
        let k = slots.len();
        if k == 0 {
            return;
        }
        // number of freshly pushed operands (the top j ones)
        let mut j = match self.ch.pick(4) {
            0 => 0,
            1 => 1.min(k),
            2 => k,
            _ => self.ch.pick(k + 1),
        };
        if let Some(vi) = violate {
            j = j.max(vi + 1);
        }
        if self.force_fresh > 0 {
            // constrained operands are always pushed fresh so that the code is valid on any state
            for (p, s) in slots.iter().enumerate() {
                if *s != Slot::Any {
                    j = j.max(p + 1);
                }
            }
        }
        // the deepest k-j operands are reused: positions (after pushes) j..k correspond to current 0..k-j
        loop {
            let ok = (j..k).all(|p| slot_ok(slots[p], m.get(p - j)));
            if ok || j == k {
                break;
            }
            j += 1;
        }
        if j == 0 {
            return;
        }
        // push deepest first
        let mut vals = vec![];
        for p in (0..j).rev() {
            let v = if violate == Some(p) { self.bad(slots[p]).unwrap() } else { self.fresh(slots[p]) };
            vals.push(v);
        }
        // split into one or several push instructions
        if vals.len() > 1 && self.ch.chance(1, 3) {
            for v in vals {
                let i = self.push_ins(vec![v]);
                m.step(&i).unwrap();
                out.push(Node::I(i));
            }
        } else {
            let i = self.push_ins(vals);
            m.step(&i).unwrap();
            out.push(Node::I(i));
        }
    }

    fn felt_imm_txt(&mut self, v: u64) -> String {
        // hexadecimal immediates are documented for push only
        format!("{}", v)
    }

    /// Try to emit one instruction of class `cls`. Returns nodes emitted (pushes + instruction).
    fn gen_ins(&mut self, m: &mut Model, out: &mut Vec<Node>) {
        use Op::*;
        use Slot::*;
        let w = self.cfg.w;
        let mut tot = 0;
        let enabled = [true, true, true, true, self.cfg.mem, self.cfg.adv, self.cfg.crypto, self.cfg.env || self.cfg.decorators];
        for (i, x) in w.iter().enumerate() {
            if enabled[i] {
                tot += x;
            }
        }
        let mut r = self.ch.pick(tot as usize) as u32;
        let mut cls = 0;
        for (i, x) in w.iter().enumerate() {
            if !enabled[i] {
                continue;
            }
            if r < *x {
                cls = i;
                break;
            }
            r -= x;
        }
        let fail = self.cfg.fail && self.failed.is_none() && self.ch.chance(1, 6);
        // (op, slots, imm form: 0 none, 1 felt imm replaces top slot, 2 u32 imm replaces top slot, 3 index param)
        let (op, slots, imm): (Op, Vec<Slot>, Option<(u64, String)>) = match cls {
            0 => {
                self.classes.insert("field");
                let c = self.ch.pick(34);
                match c {
                    0 => (Add, vec![Any, Any], None),
                    1 => (Sub, vec![Any, Any], None),
                    2 => (Mul, vec![Any, Any], None),
                    3 => (Div, vec![Nz, Any], None),
                    4 | 5 | 6 | 7 | 8 | 9 | 10 => {
                        // immediate forms
                        let o = [Add, Sub, Mul, Div, Eq, Neq, Exp][c - 4];
                        let mut v = if o == Exp { [0, 1, 2, 3, 7, 255, 256, 65537, (1u64 << 32) - 1, 1u64 << 32, P - 1, 1u64 << 63][self.ch.pick(12)] } else { self.ch.felt() };
                        if o == Div && v == 0 {
                            v = 1;
                        }
                        let t = self.felt_imm_txt(v);
                        (o, vec![Any], Some((v, t)))
                    }
                    11 => (Neg, vec![Any], None),
                    12 => (Inv, vec![Nz], None),
                    13 => (Pow2, vec![Le63], None),
                    14 => (Exp, vec![Any, Any], None),
                    15 => {
                        let bits = [0u64, 1, 2, 8, 16, 31, 32, 33, 62][self.ch.pick(9)];
                        (ExpU, vec![Bits(bits), Any], Some((bits, format!("u{}", bits))))
                    }
                    16 => (ILog2, vec![Nz], None),
                    17 => (Not, vec![Bin], None),
                    18 => (And, vec![Bin, Bin], None),
                    19 => (Or, vec![Bin, Bin], None),
                    20 => (Xor, vec![Bin, Bin], None),
                    21 => (Eq, vec![Any, Any], None),
                    22 => (Neq, vec![Any, Any], None),
                    23 => (Eqw, vec![], None),
                    24 => (Lt, vec![Any, Any], None),
                    25 => (Lte, vec![Any, Any], None),
                    26 => (Gt, vec![Any, Any], None),
                    27 => (Gte, vec![Any, Any], None),
                    28 => (IsOdd, vec![Any], None),
                    29 => (Ext2Add, vec![Any, Any, Any, Any], None),
                    30 => (Ext2Sub, vec![Any, Any, Any, Any], None),
                    31 => (Ext2Mul, vec![Any, Any, Any, Any], None),
                    32 => ([Ext2Neg, Ext2Inv][self.ch.pick(2)], vec![Nz, Any], None),
                    _ => (Ext2Div, vec![Nz, Any, Any, Any], None),
                }
            }
            1 => {
                self.classes.insert("u32");
                let c = self.ch.pick(46);
                match c {
                    0 => (U32Test, vec![Any], None),
                    1 => (U32Testw, vec![], None),
                    2 => (U32Assert, vec![U32], None),
                    3 => (U32Assert2, vec![U32, U32], None),
                    4 => (U32Assertw, vec![U32, U32, U32, U32], None),
                    5 => (U32Cast, vec![Any], None),
                    6 => (U32Split, vec![Any], None),
                    7 => (U32OverflowingAdd, vec![U32, U32], None),
                    8 => (U32WrappingAdd, vec![U32, U32], None),
                    9 => (U32OverflowingAdd3, vec![U32, U32, U32], None),
                    10 => (U32WrappingAdd3, vec![U32, U32, U32], None),
                    11 => (U32OverflowingSub, vec![U32, U32], None),
                    12 => (U32WrappingSub, vec![U32, U32], None),
                    13 => (U32OverflowingMul, vec![U32, U32], None),
                    14 => (U32WrappingMul, vec![U32, U32], None),
                    15 => (U32OverflowingMadd, vec![U32, U32, U32], None),
                    16 => (U32WrappingMadd, vec![U32, U32, U32], None),
                    17 => (U32Div, vec![U32Nz, U32], None),
                    18 => (U32Mod, vec![U32Nz, U32], None),
                    19 => (U32DivMod, vec![U32Nz, U32], None),
                    20 => (U32And, vec![U32, U32], None),
                    21 => (U32Or, vec![U32, U32], None),
                    22 => (U32Xor, vec![U32, U32], None),
                    23 => (U32Not, vec![U32], None),
                    24 => (U32Shl, vec![Le31, U32], None),
                    25 => (U32Shr, vec![Le31, U32], None),
                    26 => (U32Rotl, vec![Le31, U32], None),
                    27 => (U32Rotr, vec![Le31, U32], None),
                    28 => (U32Popcnt, vec![U32], None),
                    29 => (U32Clz, vec![U32], None),
                    30 => (U32Ctz, vec![U32], None),
                    31 => (U32Clo, vec![U32], None),
                    32 => (U32Cto, vec![U32], None),
                    33 => (U32Lt, vec![U32, U32], None),
                    34 => (U32Lte, vec![U32, U32], None),
                    35 => (U32Gt, vec![U32, U32], None),
                    36 => (U32Gte, vec![U32, U32], None),
                    37 => (U32Min, vec![U32, U32], None),
                    38 => (U32Max, vec![U32, U32], None),
                    39 | 40 | 41 | 42 => {
                        // u32 immediate arithmetic
                        let o = [
                            U32OverflowingAdd, U32WrappingAdd, U32OverflowingSub, U32WrappingSub, U32OverflowingMul,
                            U32WrappingMul, U32Div, U32Mod, U32DivMod,
                        ][self.ch.pick(9)];
                        let mut v = self.ch.u32v();
                        if matches!(o, U32Div | U32Mod | U32DivMod) && v == 0 {
                            v = 1;
                        }
                        (o, vec![U32], Some((v, format!("{}", v))))
                    }
                    _ => {
                        let o = [U32Shl, U32Shr, U32Rotl, U32Rotr][self.ch.pick(4)];
                        let v = [0u64, 1, 7, 16, 30, 31][self.ch.pick(6)];
                        (o, vec![U32], Some((v, format!("{}", v))))
                    }
                }
            }
            2 => {
                self.classes.insert("stack");
                let c = self.ch.pick(20);
                match c {
                    0 => (Drop, vec![], None),
                    1 => (Dropw, vec![], None),
                    2 => (Padw, vec![], None),
                    3 | 4 => {
                        let n = self.ch.pick(16) as u64;
                        (Dup, vec![], Some((n, if n == 0 && self.ch.chance(1, 2) { String::new() } else { format!("{}", n) })))
                    }
                    5 => {
                        let n = self.ch.pick(4) as u64;
                        (Dupw, vec![], Some((n, if n == 0 && self.ch.chance(1, 2) { String::new() } else { format!("{}", n) })))
                    }
                    6 | 7 => {
                        let n = 1 + self.ch.pick(15) as u64;
                        (Swap, vec![], Some((n, if n == 1 && self.ch.chance(1, 2) { String::new() } else { format!("{}", n) })))
                    }
                    8 => {
                        let n = 1 + self.ch.pick(3) as u64;
                        (Swapw, vec![], Some((n, if n == 1 && self.ch.chance(1, 2) { String::new() } else { format!("{}", n) })))
                    }
                    9 => (Swapdw, vec![], None),
                    10 | 11 => {
                        let n = 2 + self.ch.pick(14) as u64;
                        (Movup, vec![], Some((n, format!("{}", n))))
                    }
                    12 | 13 => {
                        let n = 2 + self.ch.pick(14) as u64;
                        (Movdn, vec![], Some((n, format!("{}", n))))
                    }
                    14 => {
                        let n = 2 + self.ch.pick(2) as u64;
                        (Movupw, vec![], Some((n, format!("{}", n))))
                    }
                    15 => {
                        let n = 2 + self.ch.pick(2) as u64;
                        (Movdnw, vec![], Some((n, format!("{}", n))))
                    }
                    16 => (Cswap, vec![Bin], None),
                    17 => (Cswapw, vec![Bin], None),
                    18 => (Cdrop, vec![Bin], None),
                    _ => (Cdropw, vec![Bin], None),
                }
            }
            3 => {
                self.classes.insert("push");
                let n = [1, 1, 1, 2, 3, 4, 4, 5, 8, 16][self.ch.pick(10)];
                let vals: Vec<u64> = (0..n).map(|_| self.ch.felt()).collect();
                let i = self.push_ins(vals);
                if m.step(&i).is_ok() {
                    out.push(Node::I(i));
                }
                return;
            }
            4 => {
                self.classes.insert("mem");
                return self.gen_mem(m, out, fail);
            }
            5 => {
                self.classes.insert("adv");
                if !self.map_entries.is_empty() && self.force_fresh == 0 && self.ch.chance(1, 4) {
                    return self.gen_mapval(m, out);
                }
                let c = self.ch.pick(3);
                match c {
                    0 => {
                        let n = 1 + self.ch.pick(16) as u64;
                        (AdvPush, vec![], Some((n, format!("{}", n))))
                    }
                    1 => (AdvLoadw, vec![], None),
                    _ => return self.gen_mem_stream(m, out, true, fail),
                }
            }
            6 => {
                self.classes.insert("crypto");
                if !self.roots.is_empty() && self.force_fresh == 0 && self.ch.chance(1, 2) {
                    return self.gen_merkle(m, out, fail);
                }
                let c = self.ch.pick(3);
                ([Hperm, Hash, Hmerge][c], vec![], None)
            }
            _ => {
                let c = self.ch.pick(8);
                if c < 2 && self.cfg.env {
                    self.classes.insert("env");
                    ([Sdepth, ClkDrop][c], vec![], None)
                } else if self.cfg.decorators {
                    self.classes.insert("decorator");
                    let t = match c {
                        2 => "debug.stack".to_string(),
                        3 => format!("debug.stack.{}", 1 + self.ch.pick(20)),
                        4 => "debug.mem".to_string(),
                        5 => format!("emit.{}", self.ch.next()),
                        6 => format!("trace.{}", self.ch.next()),
                        _ => format!("debug.mem.{}", 1 + self.ch.pick(8)),
                    };
                    let i = Ins::new(Nop, None, t);
                    out.push(Node::I(i));
                    return;
                } else {
                    return;
                }
            }
        };
        // failing variant: violate one violable slot, or use a failing assertion
        let mut violate = None;
        if fail {
            let cands: Vec<usize> = slots
                .iter()
                .enumerate()
                .filter(|(_, s)| match s {
                    Bin | Nz | U32Nz | Le63 => true,
                    U32 => matches!(op, U32Assert | U32Assert2 | U32Assertw | U32And | U32Or | U32Xor | U32Not),
                    _ => false,
                })
                .map(|(i, _)| i)
                .collect();
            // only slots whose violation is a *documented failure* (not "undefined")
            let cands: Vec<usize> = cands
                .into_iter()
                .filter(|&i| match (op, slots[i]) {
                    (Ext2Neg, _) => false,
                    (Ext2Inv, Nz) | (Ext2Div, Nz) => false, // zero needs both limbs zero; handled below
                    (U32Div, U32Nz) | (U32Mod, U32Nz) | (U32DivMod, U32Nz) => true,
                    _ => true,
                })
                .collect();
            if !cands.is_empty() && imm.is_none() {
                violate = Some(cands[self.ch.pick(cands.len())]);
            }
        }
        let mut slots = slots;
        if op == Ext2Neg {
            slots = vec![Any, Any];
        }
        let is_imm_operand = imm.is_some() && !matches!(op, Dup | Dupw | Swap | Swapw | Movup | Movdn | Movupw | Movdnw | AdvPush | ExpU);
        let _ = is_imm_operand;
        let snapshot = m.clone();
        let mark = out.len();
        self.prep(m, &slots, out, violate);
        let (immv, txt) = match &imm {
            Some((v, t)) => {
                let name = op_name(op);
                (Some(*v), if t.is_empty() { name.to_string() } else { format!("{}.{}", name, t) })
            }
            None => (None, op_name(op).to_string()),
        };
        let mut ins = Ins::new(op, immv, txt);
        // error codes on assertions
        if matches!(op, U32Assert | U32Assert2 | U32Assertw) && self.ch.chance(1, 3) {
            let code = self.ch.u32v();
            ins.imm = Some(code);
            ins.txt = format!("{}.err={}", op_name(op), code);
        }
        match m.step(&ins) {
            Ok(()) => out.push(Node::I(ins)),
            Err(MErr::Fail(f)) if fail => {
                out.push(Node::I(ins));
                self.failed = Some(f);
            }
            Err(_) => {
                *m = snapshot;
                out.truncate(mark);
            }
        }
    }

    fn addr_pool(&mut self, m: &Model) -> u64 {
        let _ = m;
        const POOL: [u64; 12] =
            [0, 1, 2, 3, 4, 7, 100, 65535, 65536, (1 << 32) - 3, (1 << 32) - 2, (1 << 32) - 1];
        POOL[self.ch.pick(POOL.len())]
    }

    fn gen_mem(&mut self, m: &mut Model, out: &mut Vec<Node>, fail: bool) {
        use Op::*;
        let c = self.ch.pick(12);
        if c == 10 {
            return self.gen_mem_stream(m, out, false, fail);
        }
        if c == 11 {
            return self.gen_assert(m, out, fail);
        }
        let op = [MemLoad, MemLoadw, MemStore, MemStorew][c % 4];
        let snapshot = m.clone();
        let mark = out.len();
        let mut a = self.addr_pool(m);
        if fail && self.ch.chance(1, 2) {
            a = [1u64 << 32, (1 << 32) + 1, P - 1][self.ch.pick(3)];
        }
        let use_imm = a >> 32 == 0 && self.ch.chance(1, 2);
        // value operands: store needs a value below the address
        if matches!(op, MemStore) && self.ch.chance(2, 3) {
            let v = self.ch.felt();
            let i = self.push_ins(vec![v]);
            m.step(&i).unwrap();
            out.push(Node::I(i));
        }
        if matches!(op, MemStorew) && self.ch.chance(1, 2) {
            let vals: Vec<u64> = (0..4).map(|_| self.ch.felt()).collect();
            let i = self.push_ins(vals);
            m.step(&i).unwrap();
            out.push(Node::I(i));
        }
        if matches!(op, MemLoadw) && self.ch.chance(1, 2) {
            let i = Ins::new(Padw, None, "padw");
            m.step(&i).unwrap();
            out.push(Node::I(i));
        }
        let ins = if use_imm {
            Ins::new(op, Some(a), format!("{}.{}", op_name(op), a))
        } else {
            let i = self.push_ins(vec![a]);
            m.step(&i).unwrap();
            out.push(Node::I(i));
            Ins::new(op, None, op_name(op))
        };
        match m.step(&ins) {
            Ok(()) => out.push(Node::I(ins)),
            Err(MErr::Fail(f)) if fail => {
                out.push(Node::I(ins));
                self.failed = Some(f);
            }
            Err(_) => {
                *m = snapshot;
                out.truncate(mark);
            }
        }
    }

    fn gen_mem_stream(&mut self, m: &mut Model, out: &mut Vec<Node>, pipe: bool, fail: bool) {
        // [C, B, A, a, ...]: address at position 12
        let snapshot = m.clone();
        let mark = out.len();
        let mut a = self.addr_pool(m);
        if a + 1 >= 1 << 32 {
            if self.cfg.avoid.contains("stream_wrap") {
                self.excluded += 1;
                a = 8;
            } else if !fail {
                a = 6;
            }
        }
        let i = self.push_ins(vec![a]);
        m.step(&i).unwrap();
        out.push(Node::I(i));
        for _ in 0..3 {
            let i = Ins::new(Op::Padw, None, "padw");
            m.step(&i).unwrap();
            out.push(Node::I(i));
        }
        let op = if pipe { Op::AdvPipe } else { Op::MemStream };
        let ins = Ins::new(op, None, op_name(op));
        match m.step(&ins) {
            Ok(()) => out.push(Node::I(ins)),
            Err(MErr::Fail(f)) if fail => {
                out.push(Node::I(ins));
                self.failed = Some(f);
            }
            Err(_) => {
                *m = snapshot;
                out.truncate(mark);
            }
        }
    }

    /// adv.push_mapval / adv.push_mapvaln on a key of the advice map, followed by reads of (some
    /// of) the values the injector put on the advice stack
    fn gen_mapval(&mut self, m: &mut Model, out: &mut Vec<Node>) {
        self.classes.insert("adv-map");
        let snapshot = m.clone();
        let mark = out.len();
        let (key, vals) = self.map_entries[self.ch.pick(self.map_entries.len())].clone();
        let i = self.push_ins(key.to_vec());
        m.step(&i).unwrap();
        out.push(Node::I(i));
        let with_len = self.ch.chance(1, 2);
        let op = if with_len { Op::AdvPushMapvaln } else { Op::AdvPushMapval };
        let ins = Ins::new(op, None, op_name(op));
        if m.step(&ins).is_err() {
            *m = snapshot;
            out.truncate(mark);
            return;
        }
        out.push(Node::I(ins));
        let avail = vals.len() + if with_len { 1 } else { 0 };
        let k = 1 + self.ch.pick(avail.min(16));
        let ins = Ins::new(Op::AdvPush, Some(k as u64), format!("adv_push.{}", k));
        match m.step(&ins) {
            Ok(()) => out.push(Node::I(ins)),
            Err(_) => {
                *m = snapshot;
                out.truncate(mark);
            }
        }
    }

    /// mtree_get / mtree_verify / mtree_set on one of the trees known to the store
    fn gen_merkle(&mut self, m: &mut Model, out: &mut Vec<Node>, fail: bool) {
        self.classes.insert("merkle");
        let snapshot = m.clone();
        let mark = out.len();
        let (root, depth) = self.roots[self.ch.pick(self.roots.len())];
        let d = if self.ch.chance(3, 4) { depth } else { 1 + self.ch.pick(depth as usize) as u64 };
        let idx = self.ch.pick(1usize << d) as u64;
        let which = self.ch.pick(3);
        let emit = |g: &mut Gen, m: &mut Model, out: &mut Vec<Node>, vals: Vec<u64>| {
            let i = g.push_ins(vals);
            m.step(&i).unwrap();
            out.push(Node::I(i));
        };
        let op = match which {
            0 => {
                emit(self, m, out, root.to_vec());
                emit(self, m, out, vec![idx, d]);
                Op::MtreeGet
            }
            1 => {
                // the node the tree really holds (or, in failure mode, another value)
                let node = {
                    use vm_core::crypto::merkle::NodeIndex;
                    let ni = NodeIndex::new(d as u8, idx).unwrap();
                    m.store.get_node(root.map(vm_core::Felt::new).into(), ni).ok().map(|n| {
                        let w: [vm_core::Felt; 4] = n.into();
                        w.map(|f| vm_core::StarkField::as_int(&f))
                    })
                };
                let Some(mut node) = node else {
                    *m = snapshot;
                    out.truncate(mark);
                    return;
                };
                if fail {
                    node[self.ch.pick(4)] = self.ch.felt();
                }
                emit(self, m, out, root.to_vec());
                emit(self, m, out, vec![idx, d]);
                emit(self, m, out, node.to_vec());
                Op::MtreeVerify
            }
            _ => {
                let nv: Vec<u64> = (0..4).map(|_| self.ch.felt()).collect();
                emit(self, m, out, nv);
                emit(self, m, out, root.to_vec());
                emit(self, m, out, vec![idx, d]);
                Op::MtreeSet
            }
        };
        let ins = Ins::new(op, None, op_name(op));
        match m.step(&ins) {
            Ok(()) => {
                out.push(Node::I(ins));
                if op == Op::MtreeSet {
                    // [V_old, R_new, ...]: remember the new root
                    let st = m.final_stack();
                    if st.len() >= 8 {
                        let r = [st[7], st[6], st[5], st[4]];
                        if !self.roots.iter().any(|(x, _)| *x == r) && self.roots.len() < 6 {
                            self.roots.push((r, depth));
                        }
                    }
                }
            }
            Err(MErr::Fail(f)) if fail && which == 1 => {
                out.push(Node::I(ins));
                self.failed = Some(f);
            }
            Err(_) => {
                *m = snapshot;
                out.truncate(mark);
            }
        }
    }

    fn gen_assert(&mut self, m: &mut Model, out: &mut Vec<Node>, fail: bool) {
        use Op::*;
        let op = [Assert, Assertz, AssertEq, AssertEqw][self.ch.pick(4)];
        let snapshot = m.clone();
        let mark = out.len();
        let code = if self.ch.chance(1, 2) { Some(self.ch.u32v()) } else { None };
        let good = !fail;
        let vals: Vec<u64> = match op {
            Assert => vec![if good { 1 } else { [0, 2, P - 1][self.ch.pick(3)] }],
            Assertz => vec![if good { 0 } else { [1, 2, P - 1][self.ch.pick(3)] }],
            AssertEq => {
                let v = self.ch.felt();
                vec![v, if good { v } else { fe::add(v, 1) }]
            }
            _ => {
                let w: Vec<u64> = (0..4).map(|_| self.ch.felt()).collect();
                let mut w2 = w.clone();
                if !good {
                    let k = self.ch.pick(4);
                    w2[k] = fe::add(w2[k], 1);
                }
                let mut v = w;
                v.extend(w2);
                v
            }
        };
        let i = self.push_ins(vals);
        m.step(&i).unwrap();
        out.push(Node::I(i));
        let ins = match code {
            Some(c) => Ins::new(op, Some(c), format!("{}.err={}", op_name(op), c)),
            None => Ins::new(op, None, op_name(op)),
        };
        match m.step(&ins) {
            Ok(()) => out.push(Node::I(ins)),
            Err(MErr::Fail(f)) if fail => {
                out.push(Node::I(ins));
                self.failed = Some(f);
            }
            Err(_) => {
                *m = snapshot;
                out.truncate(mark);
            }
        }
    }

    fn gen_local(&mut self, m: &mut Model, out: &mut Vec<Node>, nlocals: u16) {
        use Op::*;
        if nlocals == 0 {
            return;
        }
        self.classes.insert("locals");
        let idx = self.ch.pick(nlocals as usize) as u64;
        let op = [LocStorew, LocStore, LocLoad, LocLoadw, Locaddr, LocStorew][self.ch.pick(6)];
        let snapshot = m.clone();
        let mark = out.len();
        let mut nodes: Vec<Ins> = vec![];
        match op {
            LocStore => {
                let v = self.ch.felt();
                nodes.push(self.push_ins(vec![v]));
            }
            LocStorew if self.ch.chance(1, 2) => {
                let vals: Vec<u64> = (0..4).map(|_| self.ch.felt()).collect();
                nodes.push(self.push_ins(vals));
            }
            LocLoadw if self.ch.chance(1, 2) => nodes.push(Ins::new(Padw, None, "padw")),
            _ => {}
        }
        nodes.push(Ins::new(op, Some(idx), format!("{}.{}", op_name(op), idx)));
        if op == Locaddr {
            // never let the absolute address escape: use it as an address right away
            let c = self.ch.pick(3);
            match c {
                0 => nodes.push(Ins::new(Drop, None, "drop")),
                1 => {
                    // store a word through the pointer: equivalent to loc_storew
                    nodes.push(Ins::new(MemStorew, None, "mem_storew"));
                }
                _ => nodes.push(Ins::new(MemLoad, None, "mem_load")),
            }
        }
        let mut ok = true;
        for i in &nodes {
            // a store through a locaddr pointer initialises the local for the model
            if i.op == MemStorew && nodes.iter().any(|x| x.op == Locaddr) {
                let st = Ins::new(LocStorew, Some(idx), "");
                let mut probe = m.clone();
                let _ = probe.step(&Ins::new(Drop, None, ""));
                if probe.step(&st).is_err() {
                    ok = false;
                    break;
                }
                // apply: pop address, store word
                *m = probe;
                continue;
            }
            if i.op == MemLoad && nodes.iter().any(|x| x.op == Locaddr) {
                let ld = Ins::new(LocLoad, Some(idx), "");
                let mut probe = m.clone();
                let _ = probe.step(&Ins::new(Drop, None, ""));
                if probe.step(&ld).is_err() {
                    ok = false;
                    break;
                }
                *m = probe;
                continue;
            }
            if m.step(i).is_err() {
                ok = false;
                break;
            }
        }
        if ok {
            out.extend(nodes.into_iter().map(Node::I));
        } else {
            *m = snapshot;
            out.truncate(mark);
        }
    }

    /// ensure a binary value is on top; returns false if not possible
    fn prep_cond(&mut self, m: &mut Model, out: &mut Vec<Node>, want: Option<u64>) {
        let reuse = want.is_none() && m.get(0) <= 1 && self.ch.chance(1, 3);
        if reuse {
            return;
        }
        let v = want.unwrap_or_else(|| self.ch.pick(2) as u64);
        let i = if self.cfg.adv && self.ch.chance(1, 4) && v <= 1 {
            m.adv_force = Some(v);
            Ins::new(Op::AdvPush, Some(1), "adv_push.1")
        } else {
            self.push_ins(vec![v])
        };
        m.step(&i).unwrap();
        out.push(Node::I(i));
    }

    /// Generate a block of nodes under model `m` (which is advanced).
    pub fn gen_block(&mut self, m: &mut Model, nest: usize, nlocals: u16, len: usize) -> Vec<Node> {
        let mut out = vec![];
        let mut n = 0;
        while n < len && self.budget > 0 && self.failed.is_none() && !self.ch.exhausted() {
            n += 1;
            self.budget -= 1;
            let r = self.ch.pick(100);
            let ctrl_ok = self.cfg.ctrl && nest < self.cfg.max_nest;
            if r < 70 || !ctrl_ok {
                if nlocals > 0 && self.ch.chance(1, 5) {
                    self.gen_local(m, &mut out, nlocals);
                } else {
                    self.gen_ins(m, &mut out);
                }
            } else if r < 78 {
                self.gen_if(m, &mut out, nest, nlocals);
            } else if r < 84 {
                self.gen_while(m, &mut out, nest, nlocals);
            } else if r < 89 {
                self.gen_repeat(m, &mut out, nest, nlocals);
            } else if self.cfg.procs {
                self.gen_invoke(m, &mut out, nest);
            }
        }
        out
    }

    fn gen_if(&mut self, m: &mut Model, out: &mut Vec<Node>, nest: usize, nlocals: u16) {
        self.classes.insert("if");
        let snapshot = m.clone();
        let mark = out.len();
        let bad_cond = self.cfg.fail && self.failed.is_none() && self.ch.chance(1, 8);
        if bad_cond {
            let v = [2u64, 3, P - 1, 1 << 32][self.ch.pick(4)];
            let i = self.push_ins(vec![v]);
            m.step(&i).unwrap();
            out.push(Node::I(i));
        } else {
            self.prep_cond(m, out, None);
        }
        let c = m.get(0);
        // generate both branches under clones positioned after the pop
        let mut after = m.clone();
        after.pop();
        after.pad();
        let lt = 1 + self.ch.pick(5);
        let lf = self.ch.pick(5);
        let mut mt = after.clone();
        let t = self.gen_block(&mut mt, nest + 1, nlocals, lt);
        if self.failed.is_some() && c != 1 {
            // failure was generated in a branch that is not taken: forget it
            self.failed = None;
        }
        let had_fail = self.failed.is_some();
        let mut mf = after.clone();
        let f = if had_fail { vec![] } else { self.gen_block(&mut mf, nest + 1, nlocals, lf) };
        if !had_fail && self.failed.is_some() && c != 0 {
            self.failed = None;
        }
        let node = Node::If(t, f);
        match m.run_node(&self.prog, &node) {
            Ok(()) => out.push(node),
            Err(MErr::Fail(fl)) if self.cfg.fail => {
                out.push(node);
                self.failed = Some(fl);
            }
            Err(_) => {
                *m = snapshot;
                out.truncate(mark);
                self.failed = None;
            }
        }
    }

    fn gen_while(&mut self, m: &mut Model, out: &mut Vec<Node>, nest: usize, nlocals: u16) {
        self.classes.insert("while");
        let snapshot = m.clone();
        let mark = out.len();
        let style = self.ch.pick(3);
        let iters = [0u64, 1, 1, 2, 3, 5][self.ch.pick(6)];
        let blen = 1 + self.ch.pick(6);
        let bad_cond = self.cfg.fail && self.failed.is_none() && self.ch.chance(1, 8);
        let bad_at_entry = bad_cond && self.ch.chance(1, 2);
        let badv = [2u64, 3, P - 1, 1 << 32][self.ch.pick(4)];
        self.n_loops += 1;
        let cnt_addr = CNT_BASE + self.n_loops;
        // prelude
        let mut pre: Vec<Ins> = vec![];
        let tail: Vec<Ins>;
        if style == 0 && !bad_cond {
            // counter in memory
            pre.push(Ins { op: Op::Push, imm: None, vals: vec![iters], txt: format!("push.{}", iters) });
            pre.push(Ins::new(Op::MemStore, Some(cnt_addr), format!("mem_store.{}", cnt_addr)));
            pre.push(Ins::new(Op::MemLoad, Some(cnt_addr), format!("mem_load.{}", cnt_addr)));
            pre.push(Ins::new(Op::Neq, Some(0), "neq.0"));
            tail = vec![
                Ins::new(Op::MemLoad, Some(cnt_addr), format!("mem_load.{}", cnt_addr)),
                Ins::new(Op::Sub, Some(1), "sub.1"),
                Ins::new(Op::Dup, Some(0), "dup"),
                Ins::new(Op::MemStore, Some(cnt_addr), format!("mem_store.{}", cnt_addr)),
                Ins::new(Op::Neq, Some(0), "neq.0"),
            ];
        } else if !self.cfg.adv || bad_cond {
            // explicit pushes: loop runs `1` iteration or 0
            let first = if bad_at_entry { badv } else { (iters > 0 || bad_cond) as u64 };
            pre.push(Ins { op: Op::Push, imm: None, vals: vec![first], txt: format!("push.{}", first) });
            let last = if bad_cond { badv } else { 0 };
            tail = vec![Ins { op: Op::Push, imm: None, vals: vec![last], txt: format!("push.{}", last) }];
        } else {
            // advice-controlled
            let cond = Ins { op: Op::AdvPush, imm: Some(1), vals: vec![COND_MARK], txt: "adv_push.1".into() };
            pre.push(cond.clone());
            tail = vec![cond];
        }
        // the scripted values for advice-controlled conditions
        let script: Vec<u64> = (0..iters).map(|_| 1).chain(std::iter::once(0)).collect();
        let mut mm = m.clone();
        mm.cond_script = script.clone();
        let mut okp = true;
        for i in &pre {
            if mm.step(i).is_err() {
                okp = false;
            }
        }
        if !okp {
            return;
        }
        // body generated under a clone positioned inside the first iteration
        let mut mb = mm.clone();
        mb.pop();
        mb.pad();
        self.force_fresh += 1;
        let mut body = self.gen_block(&mut mb, nest + 1, nlocals, blen);
        self.force_fresh -= 1;
        if self.failed.is_some() && (iters == 0 && !bad_cond) {
            self.failed = None;
        }
        if bad_at_entry {
            self.failed = None;
        }
        body.extend(tail.into_iter().map(Node::I));
        let node = Node::While(body);
        // validate on the real model
        m.cond_script = script;
        for i in &pre {
            m.step(i).unwrap();
        }
        match m.run_node(&self.prog, &node) {
            Ok(()) => {
                out.extend(pre.into_iter().map(Node::I));
                out.push(node);
            }
            Err(MErr::Fail(fl)) if self.cfg.fail => {
                out.extend(pre.into_iter().map(Node::I));
                out.push(node);
                self.failed = Some(fl);
            }
            Err(_) => {
                *m = snapshot;
                out.truncate(mark);
                self.failed = None;
            }
        }
        m.cond_script.clear();
    }

    fn gen_repeat(&mut self, m: &mut Model, out: &mut Vec<Node>, nest: usize, nlocals: u16) {
        self.classes.insert("repeat");
        let snapshot = m.clone();
        let n = [1u32, 2, 2, 3, 4, 5, 8, 13][self.ch.pick(8)];
        let blen = 1 + self.ch.pick(5);
        let mut mb = m.clone();
        self.force_fresh += 1;
        let body = self.gen_block(&mut mb, nest + 1, nlocals, blen);
        self.force_fresh -= 1;
        if body.is_empty() {
            return;
        }
        let mut k = n;
        loop {
            let node = Node::Repeat(k, body.clone());
            let mut probe = snapshot.clone();
            match probe.run_node(&self.prog, &node) {
                Ok(()) => {
                    *m = probe;
                    out.push(node);
                    if self.failed.is_some() {
                        // a failure generated in iteration 1 must have fired
                        self.failed = None;
                    }
                    return;
                }
                Err(MErr::Fail(fl)) if self.cfg.fail && self.failed.is_some() => {
                    *m = probe;
                    out.push(node);
                    self.failed = Some(fl);
                    return;
                }
                Err(_) => {
                    if k <= 1 {
                        *m = snapshot;
                        self.failed = None;
                        return;
                    }
                    k -= 1;
                }
            }
        }
    }

    /// kind: 0 exec, 1 call, 2 syscall (kernel proc), 3 dyn target exec, 4 dyn target call.
    /// Procedures are created only while generating `main`, so when procedure k is created all
    /// procedures 0..k are complete; inside k's body only those may be invoked.
    fn new_proc(&mut self, m: &Model, kind: u8) -> Option<usize> {
        let kernel = kind == 2;
        if self.gen_depth > 0 {
            return None;
        }
        if kernel && self.prog.kprocs.len() >= 3 {
            return None;
        }
        if !kernel && self.prog.procs.len() >= 6 {
            return None;
        }
        let nloc = if self.cfg.locals { [0u16, 0, 1, 2, 3, 5][self.ch.pick(6)] } else { 0 };
        let blen = 1 + self.ch.pick(8);
        let mut mm = m.clone();
        let idx = if kernel { KPROC + self.prog.kprocs.len() } else { self.prog.procs.len() };
        let name = if kernel { format!("k{}", self.prog.kprocs.len()) } else { format!("f{}", self.prog.procs.len()) };
        let mut body = vec![];
        match kind {
            0 => {}
            1 => mm.begin_call(idx, false),
            2 => {
                // pretend the syscall comes from a called procedure so that `caller` is defined
                mm.begin_call(0, false);
                mm.begin_call(idx, true);
            }
            3 => mm.push_sym(idx),
            _ => {
                mm.push_sym(idx);
                mm.begin_call(idx, false);
            }
        }
        mm.enter_frame(nloc);
        if kernel {
            // a kernel cannot hold two procedures with the same MAST root: make bodies distinct
            let tag = 7000 + self.prog.kprocs.len() as u64;
            for i in [Ins { op: Op::Push, imm: None, vals: vec![tag], txt: format!("push.{}", tag) }, Ins::new(Op::Drop, None, "drop")] {
                mm.step(&i).unwrap();
                body.push(Node::I(i));
            }
        }
        if kind >= 3 {
            // a dynamically invoked body starts by removing the hash from the stack
            let i = Ins::new(Op::Dropw, None, "dropw");
            mm.step(&i).unwrap();
            body.push(Node::I(i));
        }
        let saved_fail = self.cfg.fail;
        self.cfg.fail = false; // failures are generated at top level only
        self.in_kernel = kernel;
        self.cur_proc_limit = if kernel { 0 } else { self.prog.procs.len() };
        self.gen_depth += 1;
        self.force_fresh += 1;
        let mut b = self.gen_block(&mut mm, self.cfg.max_nest.saturating_sub(1), nloc, blen);
        if kernel && self.ch.chance(1, 2) {
            let i = Ins::new(Op::Caller, None, "caller");
            if mm.step(&i).is_ok() {
                b.push(Node::I(i));
            }
        }
        self.force_fresh -= 1;
        self.gen_depth -= 1;
        self.in_kernel = false;
        self.cfg.fail = saved_fail;
        body.extend(b);
        if kind == 1 || kind == 2 || kind == 4 {
            // bring the depth back to 16
            while mm.depth() > 16 {
                let i = Ins::new(Op::Drop, None, "drop");
                mm.step(&i).unwrap();
                body.push(Node::I(i));
            }
        }
        let pr = Proc { name, locals: nloc, body };
        if kernel {
            self.prog.kprocs.push(pr);
        } else {
            self.prog.procs.push(pr);
        }
        Some(idx)
    }

    fn gen_invoke(&mut self, m: &mut Model, out: &mut Vec<Node>, _nest: usize) {
        if self.in_kernel {
            return; // kernel procedures invoke nothing
        }
        let mut kinds: Vec<u8> = vec![0, 0];
        if self.cfg.calls {
            kinds.push(1);
            kinds.push(1);
            if self.cfg.kernel {
                kinds.push(2);
                kinds.push(2);
                if self.gen_depth > 0 && !self.prog.kprocs.is_empty() {
                    kinds.extend([2, 2, 2, 2]);
                }
            }
        }
        if self.cfg.dyns {
            kinds.push(3);
            if self.cfg.calls {
                kinds.push(4);
            }
        }
        let kind = kinds[self.ch.pick(kinds.len())];
        let avail = if self.gen_depth > 0 { self.cur_proc_limit } else { self.prog.procs.len() };
        let reuse = self.gen_depth > 0 || self.ch.chance(1, 2);
        let idx = if kind == 2 {
            if reuse && !self.prog.kprocs.is_empty() {
                Some(KPROC + self.ch.pick(self.prog.kprocs.len()))
            } else {
                self.new_proc(m, 2)
            }
        } else if reuse && avail > 0 {
            Some(self.ch.pick(avail))
        } else {
            self.new_proc(m, kind)
        };
        let Some(idx) = idx else { return };
        let node = match kind {
            0 => Node::Exec(idx),
            1 => Node::Call(idx),
            2 => Node::Syscall(idx),
            3 => Node::DynExec(idx),
            _ => Node::DynCall(idx),
        };
        let snapshot = m.clone();
        match m.run_node(&self.prog, &node) {
            Ok(()) => {
                self.classes.insert(match kind {
                    0 => "exec",
                    1 => "call",
                    2 => "syscall",
                    3 => "dynexec",
                    _ => "dyncall",
                });
                out.push(node);
            }
            Err(_) => {
                *m = snapshot;
            }
        }
    }
}

pub fn op_name(op: Op) -> &'static str {
    use Op::*;
    match op {
        Assert => "assert", Assertz => "assertz", AssertEq => "assert_eq", AssertEqw => "assert_eqw",
        Add => "add", Sub => "sub", Mul => "mul", Div => "div", Neg => "neg", Inv => "inv", Pow2 => "pow2",
        Exp => "exp", ExpU => "exp", ILog2 => "ilog2", Not => "not", And => "and", Or => "or", Xor => "xor",
        Eq => "eq", Neq => "neq", Eqw => "eqw", Lt => "lt", Lte => "lte", Gt => "gt", Gte => "gte", IsOdd => "is_odd",
        Ext2Add => "ext2add", Ext2Sub => "ext2sub", Ext2Mul => "ext2mul", Ext2Neg => "ext2neg", Ext2Inv => "ext2inv", Ext2Div => "ext2div",
        U32Test => "u32test", U32Testw => "u32testw", U32Assert => "u32assert", U32Assert2 => "u32assert2", U32Assertw => "u32assertw",
        U32Cast => "u32cast", U32Split => "u32split",
        U32OverflowingAdd => "u32overflowing_add", U32WrappingAdd => "u32wrapping_add",
        U32OverflowingAdd3 => "u32overflowing_add3", U32WrappingAdd3 => "u32wrapping_add3",
        U32OverflowingSub => "u32overflowing_sub", U32WrappingSub => "u32wrapping_sub",
        U32OverflowingMul => "u32overflowing_mul", U32WrappingMul => "u32wrapping_mul",
        U32OverflowingMadd => "u32overflowing_madd", U32WrappingMadd => "u32wrapping_madd",
        U32Div => "u32div", U32Mod => "u32mod", U32DivMod => "u32divmod",
        U32And => "u32and", U32Or => "u32or", U32Xor => "u32xor", U32Not => "u32not",
        U32Shl => "u32shl", U32Shr => "u32shr", U32Rotl => "u32rotl", U32Rotr => "u32rotr",
        U32Popcnt => "u32popcnt", U32Clz => "u32clz", U32Ctz => "u32ctz", U32Clo => "u32clo", U32Cto => "u32cto",
        U32Lt => "u32lt", U32Lte => "u32lte", U32Gt => "u32gt", U32Gte => "u32gte", U32Min => "u32min", U32Max => "u32max",
        Drop => "drop", Dropw => "dropw", Padw => "padw", Dup => "dup", Dupw => "dupw", Swap => "swap", Swapw => "swapw",
        Swapdw => "swapdw", Movup => "movup", Movupw => "movupw", Movdn => "movdn", Movdnw => "movdnw",
        Cswap => "cswap", Cswapw => "cswapw", Cdrop => "cdrop", Cdropw => "cdropw",
        Push => "push", Sdepth => "sdepth", ClkDrop => "clk drop", Caller => "caller", Locaddr => "locaddr",
        MemLoad => "mem_load", MemLoadw => "mem_loadw", MemStore => "mem_store", MemStorew => "mem_storew", MemStream => "mem_stream",
        LocLoad => "loc_load", LocLoadw => "loc_loadw", LocStore => "loc_store", LocStorew => "loc_storew",
        AdvPush => "adv_push", AdvLoadw => "adv_loadw", AdvPipe => "adv_pipe",
        Hash => "hash", Hmerge => "hmerge", Hperm => "hperm",
        MtreeGet => "mtree_get", MtreeSet => "mtree_set", MtreeMerge => "mtree_merge", MtreeVerify => "mtree_verify",
        AdvPushMapval => "adv.push_mapval", AdvPushMapvaln => "adv.push_mapvaln", AdvPushU64Div => "adv.push_u64div",
        AdvPushMtnode => "adv.push_mtnode", AdvInsertMem => "adv.insert_mem", AdvInsertHdword => "adv.insert_hdword",
        AdvInsertHperm => "adv.insert_hperm",
        Nop => "",
    }
}

/// loads a Merkle tree with the given leaves into the model's store; returns its root
fn load_tree(m: &mut Model, leaves: &[[u64; 4]]) -> [u64; 4] {
    use vm_core::crypto::merkle::MerkleTree;
    let words: Vec<vm_core::Word> = leaves.iter().map(|w| w.map(vm_core::Felt::new)).collect();
    let mt = MerkleTree::new(words).expect("power of two leaves");
    m.store.extend(mt.inner_nodes());
    let r: [vm_core::Felt; 4] = mt.root().into();
    r.map(|f| vm_core::StarkField::as_int(&f))
}

/// Generate a complete program + inputs + expectation from a choice vector.
pub fn generate(choices: &[u16], cfg: GenCfg) -> Generated {
    let mut g = Gen::new(choices, cfg);
    // inputs
    let nin = {
        let c = g.ch.pick(8);
        match c {
            0 => 0,
            1 => g.ch.pick(5),
            2 | 3 => g.ch.pick(17),
            4 => 16,
            5 => 17,
            _ => g.ch.pick(g.cfg.max_inputs + 1),
        }
    }
    .min(g.cfg.max_inputs);
    let inputs: Vec<u64> = (0..nin).map(|_| g.ch.felt()).collect();
    let mut m = Model::new(&inputs);
    // Merkle trees for mtree_get / mtree_set / mtree_verify
    if g.cfg.crypto && g.ch.chance(1, 2) {
        for _ in 0..1 + g.ch.pick(2) {
            let depth = 1 + g.ch.pick(4);
            let leaves: Vec<[u64; 4]> = (0..1usize << depth).map(|_| [g.ch.felt(), g.ch.felt(), g.ch.felt(), g.ch.felt()]).collect();
            let root = load_tree(&mut m, &leaves);
            g.roots.push((root, depth as u64));
            g.trees.push(leaves);
        }
    }
    // advice map entries for adv.push_mapval / adv.push_mapvaln
    if g.cfg.adv && g.cfg.decorators && g.ch.chance(1, 2) {
        for _ in 0..1 + g.ch.pick(3) {
            let key = [g.ch.felt(), g.ch.felt(), g.ch.felt(), g.ch.felt()];
            let vals: Vec<u64> = (0..1 + g.ch.pick(9)).map(|_| g.ch.felt()).collect();
            m.adv_map.insert(key, vals.clone());
            g.map_entries.push((key, vals));
        }
    }
    m.adv_on_demand = g.cfg.adv;
    m.adv_rng = 0x1234_5678_9abc_def1 ^ ((g.ch.next() as u64) << 20);
    let len = g.cfg.max_nodes;
    if g.cfg.kernel && g.cfg.procs && g.cfg.calls && g.ch.chance(g.cfg.kernel_pre, 4) {
        // kernel procedures must exist before the procedures that syscall them
        let nk = 1 + g.ch.pick(2);
        for _ in 0..nk {
            g.new_proc(&m, 2);
        }
    }
    let mut main = g.gen_block(&mut m, 0, 0, len);
    // nested repeats can leave tens of thousands of items on the stack; more than 65535 cannot be
    // returned as stack outputs (the VM stops with an error the instruction reference does not
    // describe): such programs are left to C05's directed probe and replaced here
    if m.final_stack().len() > 60_000 {
        g.excluded += 1;
        g.classes.insert("excluded:final-depth>60000");
        main = vec![Node::I(Ins::new(Op::Push, None, "push.1")), Node::I(Ins::new(Op::Drop, None, "drop"))];
        main[0] = Node::I(Ins { op: Op::Push, imm: None, vals: vec![1], txt: "push.1".into() });
    }
    g.prog.main = main;
    // procedures were registered in creation order; a procedure created while generating another
    // one's body has a higher index but must be defined earlier: order by dependency
    let prog = g.prog.clone();
    // final clean run
    let tape = m.adv.clone();
    let mut fm = Model::new(&inputs);
    for t in &g.trees {
        load_tree(&mut fm, t);
    }
    for (k, v) in &g.map_entries {
        fm.adv_map.insert(*k, v.clone());
    }
    fm.adv = tape.clone();
    fm.count_ops = true;
    let r = fm.run(&prog);
    let expect = match r {
        Ok(()) => Expect::Ok(fm.final_stack()),
        Err(MErr::Fail(f)) => Expect::Fail(f),
        Err(e) => panic!("generator/model inconsistency: {:?}\n{}", e, render(&prog)),
    };
    if g.failed.is_none() {
        if let Expect::Fail(f) = &expect {
            panic!("generator/model inconsistency: unexpected failure {:?}\n{}", f, render(&prog));
        }
    }
    let case = Case {
        src: render(&prog),
        kernel: render_kernel(&prog),
        stack: inputs,
        adv: tape,
        trees: g.trees.clone(),
        adv_map: g.map_entries.iter().cloned().collect(),
        ..Case::default()
    };
    Generated {
        prog,
        case,
        expect,
        ops: fm.ops_seen.clone(),
        classes: g.classes,
        max_depth: fm.max_depth_seen,
        ctx_switches: fm.ctx_switches,
        excluded: g.excluded,
        uncertain: fm.uncertain,
        final_mem: fm.mem.iter().map(|(k, v)| (*k, *v)).collect(),
        n_ctx: fm.next_ctx,
    }
}

