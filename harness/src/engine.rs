//! Generic driver: proptest as a library, 16 workers, fixed seeds, shrinking, replay files,
//! known-findings handling and evidence output.

use proptest::strategy::{Strategy, ValueTree};
use proptest::test_runner::{Config, RngAlgorithm, RngSeed, TestCaseError, TestError, TestRng, TestRunner};
use serde_json::{json, Value};
use std::collections::{BTreeMap, BTreeSet};
use std::sync::atomic::{AtomicBool, Ordering};
use std::sync::Mutex;
use std::time::Instant;

pub const VERIF_DIR: &str = "/verif";

#[derive(Clone, Copy, PartialEq, Eq, Debug)]
pub enum Tier {
    Quick,
    Thorough,
}

/// A violation of the property on a concrete case.
#[derive(Clone, Debug)]
pub struct Viol {
    /// narrow signature used to match known findings
    pub sig: String,
    pub msg: String,
    /// everything needed to re-run exactly this case
    pub case: Value,
}

impl Viol {
    pub fn new(sig: impl Into<String>, msg: impl Into<String>, case: Value) -> Self {
        Viol { sig: sig.into(), msg: msg.into(), case }
    }
}

/// What a passing case contributes to the evidence.
#[derive(Clone, Debug, Default)]
pub struct Info {
    /// Some(fingerprint) when the case is non-trivial by the property's rule
    pub nontrivial: Option<u64>,
    pub classes: Vec<String>,
    pub sample: Option<Value>,
    /// additional evaluations performed inside this case (e.g. mutations); 0 => counts as 1
    pub evals: u64,
    /// extra distinct non-trivial fingerprints (for checks evaluating many sub-cases per case)
    pub extra_nontrivial: Vec<u64>,
    /// violations found while the case went on checking other things: each is either a listed
    /// known finding (counted) or reported as a violation
    pub soft: Vec<Viol>,
}

pub type Out = Result<Info, Viol>;

#[derive(Default)]
pub struct Stats {
    pub evaluations: u64,
    pub nontrivial: BTreeSet<u64>,
    pub classes: BTreeMap<String, u64>,
    pub samples: Vec<Value>,
    pub known_hits: BTreeMap<String, u64>,
    pub sub: BTreeMap<String, u64>,
}

pub struct Known {
    pub sig: String,
    pub what: String,
    pub status: String,
    pub replay: Option<String>,
}

pub struct Ctx {
    pub prop: String,
    pub tier: Tier,
    pub seed: u64,
    pub flavour: &'static str,
    pub stats: Mutex<Stats>,
    pub known: Vec<Known>,
    pub start: Instant,
    pub violation: Mutex<Option<(Viol, String)>>,
    pub stop: AtomicBool,
    pub rule: Mutex<String>,
    pub assumptions: Mutex<Vec<String>>,
    pub extra: Mutex<BTreeMap<String, Value>>,
    pub exhaustive: AtomicBool,
    pub level: Mutex<String>,
    pub workers: usize,
    pub strict: bool,
}

pub fn flavour() -> &'static str {
    if cfg!(debug_assertions) {
        "chk"
    } else {
        "rel"
    }
}

pub fn fnv(data: &[u8]) -> u64 {
    let mut h: u64 = 0xcbf29ce484222325;
    for b in data {
        h ^= *b as u64;
        h = h.wrapping_mul(0x100000001b3);
    }
    h
}
pub fn fp_str(s: &str) -> u64 {
    fnv(s.as_bytes())
}

impl Ctx {
    pub fn new(prop: &str, tier: Tier, seed: u64) -> Self {
        let known = load_known(prop);
        Ctx {
            prop: prop.to_string(),
            tier,
            seed,
            flavour: flavour(),
            stats: Mutex::new(Stats::default()),
            known,
            start: Instant::now(),
            violation: Mutex::new(None),
            stop: AtomicBool::new(false),
            rule: Mutex::new(String::new()),
            assumptions: Mutex::new(vec![]),
            extra: Mutex::new(BTreeMap::new()),
            exhaustive: AtomicBool::new(false),
            level: Mutex::new("exploration".into()),
            workers: std::env::var("VERIF_WORKERS").ok().and_then(|s| s.parse().ok()).unwrap_or(16),
            strict: false,
        }
    }

    pub fn quick(&self) -> bool {
        self.tier == Tier::Quick
    }
    /// pick a case count by tier
    pub fn n(&self, quick: u32, thorough: u32) -> u32 {
        let scale: f64 = std::env::var("VERIF_SCALE").ok().and_then(|s| s.parse().ok()).unwrap_or(1.0);
        let v = if self.quick() { quick } else { thorough };
        ((v as f64 * scale).ceil() as u32).max(1)
    }
    pub fn set_rule(&self, r: &str) {
        let mut g = self.rule.lock().unwrap();
        if !g.is_empty() {
            g.push_str(" || ");
        }
        g.push_str(r);
    }
    pub fn assume(&self, a: &str) {
        self.assumptions.lock().unwrap().push(a.to_string());
    }
    pub fn set_extra(&self, k: &str, v: Value) {
        self.extra.lock().unwrap().insert(k.to_string(), v);
    }
    pub fn failed(&self) -> bool {
        self.violation.lock().unwrap().is_some()
    }

    pub fn is_known(&self, sig: &str) -> bool {
        !self.strict && self.known.iter().any(|k| k.status == "known" && k.sig == sig)
    }

    /// Record the outcome of one concrete case evaluated outside proptest (enumerations, replays)
    pub fn record(&self, sub: &str, out: Out) -> bool {
        let out = self.split_soft(out);
        match out {
            Ok(info) => {
                self.absorb(sub, info);
                true
            }
            Err(v) => {
                if self.is_known(&v.sig) {
                    let mut st = self.stats.lock().unwrap();
                    *st.known_hits.entry(v.sig.clone()).or_insert(0) += 1;
                    st.evaluations += 1;
                    true
                } else {
                    self.report(sub, v);
                    false
                }
            }
        }
    }

    /// turns the first soft violation that is not a known finding into a hard one; counts the rest
    fn split_soft(&self, out: Out) -> Out {
        match out {
            Ok(mut info) => {
                let soft = std::mem::take(&mut info.soft);
                let mut counted: BTreeSet<String> = BTreeSet::new();
                for v in soft {
                    if self.is_known(&v.sig) {
                        if counted.insert(v.sig.clone()) {
                            let mut st = self.stats.lock().unwrap();
                            *st.known_hits.entry(v.sig.clone()).or_insert(0) += 1;
                        }
                    } else {
                        return Err(v);
                    }
                }
                Ok(info)
            }
            e => e,
        }
    }

    fn absorb(&self, sub: &str, info: Info) {
        let mut st = self.stats.lock().unwrap();
        st.evaluations += info.evals.max(1);
        *st.sub.entry(sub.to_string()).or_insert(0) += info.evals.max(1);
        if let Some(f) = info.nontrivial {
            st.nontrivial.insert(f);
        }
        for f in info.extra_nontrivial {
            st.nontrivial.insert(f);
        }
        for c in info.classes {
            *st.classes.entry(c).or_insert(0) += 1;
        }
        if let Some(s) = info.sample {
            if st.samples.len() < 6 {
                st.samples.push(s);
            }
        }
    }

    pub fn report(&self, sub: &str, v: Viol) {
        let mut g = self.violation.lock().unwrap();
        if g.is_some() {
            return;
        }
        self.stop.store(true, Ordering::SeqCst);
        let dir = format!("{}/replays", VERIF_DIR);
        let _ = std::fs::create_dir_all(&dir);
        let path = format!("{}/{}-{}-{}-{:08x}.json", dir, self.prop, sub, self.seed, fp_str(&v.sig) as u32);
        let body = json!({
            "property": self.prop,
            "sub": sub,
            "signature": v.sig,
            "message": v.msg,
            "flavour": self.flavour,
            "seed": self.seed,
            "case": v.case,
        });
        let _ = std::fs::write(&path, serde_json::to_string_pretty(&body).unwrap());
        *g = Some((v, path));
    }

    /// Run `cases` generated cases of strategy `mk()` through `f`, spread over the workers.
    pub fn run<T, S, F, M>(&self, sub: &str, cases: u32, mk: M, f: F)
    where
        T: std::fmt::Debug + Clone,
        S: Strategy<Value = T>,
        M: Fn() -> S + Sync,
        F: Fn(&T) -> Out + Sync,
    {
        if self.failed() {
            return;
        }
        let workers = self.workers.min(cases as usize).max(1);
        let per = (cases as usize + workers - 1) / workers;
        std::thread::scope(|sc| {
            for w in 0..workers {
                let f = &f;
                let mk = &mk;
                let sub = sub.to_string();
                let b = std::thread::Builder::new().stack_size(64 << 20);
                b.spawn_scoped(sc, move || {
                    let mut seed = [0u8; 32];
                    let h1 = fnv(format!("{}|{}|{}|{}", self.prop, sub, self.seed, w).as_bytes());
                    let h2 = fnv(format!("{}x{}", h1, w).as_bytes());
                    seed[..8].copy_from_slice(&h1.to_le_bytes());
                    seed[8..16].copy_from_slice(&h2.to_le_bytes());
                    seed[16..24].copy_from_slice(&self.seed.to_le_bytes());
                    seed[24..32].copy_from_slice(&(w as u64).to_le_bytes());
                    let cfg = Config {
                        cases: per as u32,
                        failure_persistence: None,
                        max_shrink_iters: 400,
                        // shrinking re-runs the property: for proving checks one run takes seconds.
                        // The verdict does not depend on how far the failure was shrunk.
                        max_shrink_time: if self.quick() { 45_000 } else { 240_000 },
                        max_global_rejects: 1 << 30,
                        rng_seed: RngSeed::Fixed(h1),
                        ..Config::default()
                    };
                    let rng = TestRng::from_seed(RngAlgorithm::ChaCha, &seed);
                    let mut runner = TestRunner::new_with_rng(cfg, rng);
                    let strat = mk();
                    let failed_here = std::cell::Cell::new(false);
                    let f = |v: &T| -> Out { self.split_soft(guarded(&self.prop, || f(v), || format!("{:?}", v))) };
                    let res = runner.run(&strat, |v| {
                        if !failed_here.get() && self.stop.load(Ordering::Relaxed) {
                            return Ok(());
                        }
                        match f(&v) {
                            Ok(info) => {
                                if !failed_here.get() {
                                    self.absorb(&sub, info);
                                }
                                Ok(())
                            }
                            Err(viol) => {
                                if self.is_known(&viol.sig) {
                                    if !failed_here.get() {
                                        let mut st = self.stats.lock().unwrap();
                                        *st.known_hits.entry(viol.sig.clone()).or_insert(0) += 1;
                                        st.evaluations += 1;
                                    }
                                    Ok(())
                                } else {
                                    failed_here.set(true);
                                    Err(TestCaseError::fail(viol.sig))
                                }
                            }
                        }
                    });
                    if let Err(TestError::Fail(_, minimal)) = res {
                        // evaluate the shrunk value once more to obtain the concrete violation
                        if let Err(v) = f(&minimal) {
                            if !self.is_known(&v.sig) {
                                self.report(&sub, v);
                            }
                        }
                    } else if let Err(TestError::Abort(r)) = res {
                        eprintln!("[{}:{}] proptest aborted: {}", self.prop, sub, r);
                    }
                })
                .expect("spawn");
            }
        });
    }

    /// Evaluate explicit values in parallel (deterministic enumeration).
    pub fn run_list<T: Sync, F: Fn(&T) -> Out + Sync>(&self, sub: &str, items: &[T], f: F) {
        if self.failed() {
            return;
        }
        let workers = self.workers.min(items.len()).max(1);
        let next = std::sync::atomic::AtomicUsize::new(0);
        std::thread::scope(|sc| {
            for _ in 0..workers {
                let f = &f;
                let next = &next;
                let b = std::thread::Builder::new().stack_size(64 << 20);
                b.spawn_scoped(sc, move || loop {
                    if self.stop.load(Ordering::Relaxed) {
                        break;
                    }
                    let i = next.fetch_add(1, Ordering::Relaxed);
                    if i >= items.len() {
                        break;
                    }
                    self.record(sub, guarded(&self.prop, || f(&items[i]), || format!("item {}", i)));
                })
                .expect("spawn");
            }
        });
    }

    /// write evidence, print result lines, return the exit code
    pub fn finish(&self) -> i32 {
        let st = self.stats.lock().unwrap();
        let wall = self.start.elapsed().as_secs_f64();
        let viol = self.violation.lock().unwrap();
        let mut coverage = serde_json::Map::new();
        coverage.insert("evaluations".into(), json!(st.evaluations));
        coverage.insert("distinct_nontrivial".into(), json!(st.nontrivial.len()));
        coverage.insert("rule".into(), json!(self.rule.lock().unwrap().clone()));
        coverage.insert("samples".into(), json!(st.samples));
        coverage.insert("classes".into(), json!(st.classes));
        coverage.insert("per_subcheck_evaluations".into(), json!(st.sub));
        coverage.insert("flavour".into(), json!(self.flavour));
        coverage.insert("known_finding_hits".into(), json!(st.known_hits));
        if self.exhaustive.load(Ordering::Relaxed) {
            coverage.insert("exhaustive".into(), json!(true));
        }
        for (k, v) in self.extra.lock().unwrap().iter() {
            coverage.insert(k.clone(), v.clone());
        }
        let ev = json!({
            "property_id": self.prop,
            "tier": if self.quick() { "quick" } else { "thorough" },
            "seed": self.seed,
            "level": self.level.lock().unwrap().clone(),
            "coverage": Value::Object(coverage),
            "assumptions": self.assumptions.lock().unwrap().clone(),
            "wall_s": wall,
            "violations": if viol.is_some() { 1 } else { 0 },
        });
        let dir = format!("{}/evidence", VERIF_DIR);
        let _ = std::fs::create_dir_all(&dir);
        // evidence of the two flavours of one run is merged by the `check` script
        let path = std::env::var("VERIF_EVIDENCE_OUT").unwrap_or(format!("{}/{}.json", dir, self.prop));
        let _ = std::fs::write(&path, serde_json::to_string_pretty(&ev).unwrap());

        for k in &self.known {
            if k.status == "known" {
                let hits = st.known_hits.get(&k.sig).copied().unwrap_or(0);
                if hits > 0 {
                    println!("KNOWN-FINDING: property={} {} [sig={} hits={}]", self.prop, k.what, k.sig, hits);
                }
            }
        }
        println!(
            "[{}] tier={} flavour={} seed={} evaluations={} distinct_nontrivial={} wall={:.1}s",
            self.prop,
            if self.quick() { "quick" } else { "thorough" },
            self.flavour,
            self.seed,
            st.evaluations,
            st.nontrivial.len(),
            wall
        );
        if let Some((v, path)) = viol.as_ref() {
            println!("violation: sig={} {}", v.sig, v.msg);
            println!("VIOLATION property={} replay={}", self.prop, path);
            1
        } else {
            0
        }
    }
}

/// run a case; a panic that escapes the check itself is reported as a violation with the panic
/// site in its signature (the checks catch the panics they expect)
pub fn guarded(prop: &str, f: impl FnOnce() -> Out, describe: impl FnOnce() -> String) -> Out {
    match crate::vm::catch(f) {
        Ok(o) => o,
        Err(p) => {
            let site = crate::diff::panic_site(&p);
            Err(Viol::new(format!("{prop}:panic:{site}"), format!("panic: {p}"), json!({"generator_input": describe()})))
        }
    }
}

pub fn load_known(prop: &str) -> Vec<Known> {
    let path = format!("{}/known_findings.json", VERIF_DIR);
    let Ok(txt) = std::fs::read_to_string(&path) else { return vec![] };
    let Ok(v) = serde_json::from_str::<Value>(&txt) else { return vec![] };
    let mut out = vec![];
    if let Some(a) = v["findings"].as_array() {
        for e in a {
            if e["property"].as_str() == Some(prop) {
                out.push(Known {
                    sig: e["signature"].as_str().unwrap_or("").to_string(),
                    what: e["what"].as_str().unwrap_or("").to_string(),
                    status: e["status"].as_str().unwrap_or("known").to_string(),
                    replay: e["replay"].as_str().map(|s| s.to_string()),
                });
            }
        }
    }
    out
}

/// helper used by replay: produce a value from a strategy deterministically (for tests)
pub fn sample_one<S: Strategy>(s: &S, seed: u64) -> S::Value {
    let mut bytes = [0u8; 32];
    bytes[..8].copy_from_slice(&seed.to_le_bytes());
    let rng = TestRng::from_seed(RngAlgorithm::ChaCha, &bytes);
    let mut runner = TestRunner::new_with_rng(Config::default(), rng);
    s.new_tree(&mut runner).unwrap().current()
}
