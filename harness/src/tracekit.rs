//! Trace toolkit: a re-implementation of winterfell's `Trace::validate` that *returns* failures,
//! plus column layout constants (from docs/src/design/*/main.md) and decoding helpers.

use air::{ProcessorAir, PublicInputs};
use processor::ExecutionTrace;
use vm_core::{Felt, FieldElement, ProgramInfo, StackInputs, StackOutputs, StarkField};
use winter_air::{Air, AuxTraceRandElements, EvaluationFrame};
use winter_prover::matrix::ColMatrix;
use winter_prover::Trace;

// main segment layout
pub const CLK: usize = 0;
pub const FMP: usize = 1;
pub const CTX: usize = 2;
pub const IN_SYSCALL: usize = 3;
pub const FN_HASH: usize = 4;
pub const DEC: usize = 8;
pub const DEC_ADDR: usize = 8;
pub const DEC_OPBITS: usize = 9;
pub const DEC_H: usize = 16;
pub const DEC_IN_SPAN: usize = 24;
pub const DEC_GROUP_COUNT: usize = 25;
pub const DEC_OP_INDEX: usize = 26;
pub const DEC_BATCH_FLAGS: usize = 27;
pub const STACK: usize = 32;
pub const B0: usize = 48;
pub const B1: usize = 49;
pub const H0: usize = 50;
pub const RANGE_M: usize = 51;
pub const RANGE_V: usize = 52;
pub const CHIP: usize = 53;
pub const WIDTH: usize = 70;

// aux segment layout
pub const AUX_P1: usize = 0;
pub const AUX_P2: usize = 1;
pub const AUX_P3: usize = 2;
pub const AUX_STACK_P1: usize = 3;
pub const AUX_RANGE_B: usize = 4;
pub const AUX_SIBLING: usize = 5;
pub const AUX_CHIP_BUS: usize = 6;
pub const AUX_WIDTH: usize = 7;

#[derive(Clone, Debug)]
pub struct AirFail {
    pub segment: &'static str, // "main" | "aux"
    pub kind: &'static str,    // "transition" | "assertion"
    pub index: usize,          // constraint index / column
    pub row: usize,
    pub detail: String,
}

impl AirFail {
    pub fn sig(&self) -> String {
        format!("{}-{}-{}", self.segment, self.kind, self.index)
    }
}

pub fn make_air(trace: &ExecutionTrace, program_info: ProgramInfo, inputs: StackInputs, outputs: StackOutputs) -> ProcessorAir {
    let info = trace.get_info();
    let pi = PublicInputs::new(program_info, inputs, outputs);
    let opts: winter_air::ProofOptions = air::ProvingOptions::default().into();
    ProcessorAir::new(info, pi, opts)
}

pub fn row_of(m: &ColMatrix<Felt>, r: usize) -> Vec<Felt> {
    let mut v = vec![Felt::ZERO; m.num_cols()];
    m.read_row_into(r, &mut v);
    v
}

pub fn periodic_at(cols: &[Vec<Felt>], step: usize) -> Vec<Felt> {
    cols.iter().map(|c| c[step % c.len()]).collect()
}

/// Check every main-segment assertion and transition constraint. Returns the number of
/// (row x constraint) evaluations performed.
pub fn validate_main(air: &ProcessorAir, main: &ColMatrix<Felt>) -> Result<u64, AirFail> {
    let n = main.num_rows();
    for a in air.get_assertions() {
        let mut bad: Option<(usize, Felt)> = None;
        a.apply(n, |step, value| {
            if bad.is_none() && main.get(a.column(), step) != value {
                bad = Some((step, value));
            }
        });
        if let Some((step, value)) = bad {
            return Err(AirFail {
                segment: "main",
                kind: "assertion",
                index: a.column(),
                row: step,
                detail: format!("main[{}][{}] = {} but the assertion demands {}", a.column(), step, main.get(a.column(), step).as_int(), value.as_int()),
            });
        }
    }
    let periodic = air.get_periodic_column_values();
    let nc = air.context().num_main_transition_constraints();
    let mut res = vec![Felt::ZERO; nc];
    let last = n - air.context().num_transition_exemptions();
    let mut frame = EvaluationFrame::<Felt>::new(main.num_cols());
    for step in 0..last {
        main.read_row_into(step, frame.current_mut());
        main.read_row_into(step + 1, frame.next_mut());
        let pv = periodic_at(&periodic, step);
        for r in res.iter_mut() {
            *r = Felt::ZERO;
        }
        air.evaluate_transition(&frame, &pv, &mut res);
        if let Some(i) = res.iter().position(|v| *v != Felt::ZERO) {
            return Err(AirFail { segment: "main", kind: "transition", index: i, row: step, detail: format!("main transition constraint {} = {} at row {}", i, res[i].as_int(), step) });
        }
    }
    Ok((last * nc) as u64)
}

/// Build the aux segment for `rand` and check aux assertions and aux transition constraints.
pub fn validate_aux<E>(air: &ProcessorAir, trace: &mut ExecutionTrace, rand: &[E]) -> Result<(ColMatrix<E>, u64), AirFail>
where
    E: FieldElement<BaseField = Felt> + vm_core::ExtensionOf<Felt>,
{
    let aux = trace.build_aux_segment(&[], rand).expect("aux segment");
    let main = trace.main_segment();
    let n = main.num_rows();
    let mut are = AuxTraceRandElements::new();
    are.add_segment_elements(rand.to_vec());
    for a in air.get_aux_assertions(&are) {
        let mut bad: Option<usize> = None;
        a.apply(n, |step, value| {
            if bad.is_none() && aux.get(a.column(), step) != value {
                bad = Some(step);
            }
        });
        if let Some(step) = bad {
            return Err(AirFail { segment: "aux", kind: "assertion", index: a.column(), row: step, detail: format!("aux[{}][{}] violates its boundary assertion", a.column(), step) });
        }
    }
    let periodic = air.get_periodic_column_values();
    let nc = air.context().num_aux_transition_constraints();
    let mut res = vec![E::ZERO; nc];
    let last = n - air.context().num_transition_exemptions();
    let mut mf = EvaluationFrame::<Felt>::new(main.num_cols());
    let mut af = EvaluationFrame::<E>::new(aux.num_cols());
    for step in 0..last {
        main.read_row_into(step, mf.current_mut());
        main.read_row_into(step + 1, mf.next_mut());
        aux.read_row_into(step, af.current_mut());
        aux.read_row_into(step + 1, af.next_mut());
        let pv = periodic_at(&periodic, step);
        for r in res.iter_mut() {
            *r = E::ZERO;
        }
        air.evaluate_aux_transition(&mf, &af, &pv, &are, &mut res);
        if let Some(i) = res.iter().position(|v| *v != E::ZERO) {
            return Err(AirFail { segment: "aux", kind: "transition", index: i, row: step, detail: format!("aux transition constraint {} != 0 at row {}", i, step) });
        }
    }
    Ok((aux, (last * nc) as u64))
}

/// opcode (7 bits) in the decoder columns at row r
pub fn opcode_at(main: &ColMatrix<Felt>, r: usize) -> u8 {
    let mut v = 0u8;
    for b in 0..7 {
        v |= ((main.get(DEC_OPBITS + b, r).as_int() & 1) as u8) << b;
    }
    v
}

pub fn col_u64(main: &ColMatrix<Felt>, c: usize, r: usize) -> u64 {
    main.get(c, r).as_int()
}

/// hash of the whole main segment (for determinism comparisons)
pub fn main_fingerprint(main: &ColMatrix<Felt>) -> u64 {
    let mut h: u64 = 0xcbf29ce484222325;
    for c in 0..main.num_cols() {
        for r in 0..main.num_rows() {
            h ^= main.get(c, r).as_int();
            h = h.wrapping_mul(0x100000001b3);
        }
    }
    h
}

/// Opcode table transcribed from docs/src/design/stack/op_constraints.md ("Operation flags").
pub mod opc {
    pub const NOOP: u8 = 0b000_0000;
    pub const EQZ: u8 = 0b000_0001;
    pub const NEG: u8 = 0b000_0010;
    pub const INV: u8 = 0b000_0011;
    pub const INCR: u8 = 0b000_0100;
    pub const NOT: u8 = 0b000_0101;
    pub const FMPADD: u8 = 0b000_0110;
    pub const MLOAD: u8 = 0b000_0111;
    pub const SWAP: u8 = 0b000_1000;
    pub const CALLER: u8 = 0b000_1001;
    pub const MOVUP2: u8 = 0b000_1010;
    pub const MOVDN2: u8 = 0b000_1011;
    pub const MOVUP3: u8 = 0b000_1100;
    pub const MOVDN3: u8 = 0b000_1101;
    pub const ADVPOPW: u8 = 0b000_1110;
    pub const EXPACC: u8 = 0b000_1111;
    pub const MOVUP4: u8 = 0b001_0000;
    pub const MOVDN4: u8 = 0b001_0001;
    pub const MOVUP5: u8 = 0b001_0010;
    pub const MOVDN5: u8 = 0b001_0011;
    pub const MOVUP6: u8 = 0b001_0100;
    pub const MOVDN6: u8 = 0b001_0101;
    pub const MOVUP7: u8 = 0b001_0110;
    pub const MOVDN7: u8 = 0b001_0111;
    pub const SWAPW: u8 = 0b001_1000;
    pub const EXT2MUL: u8 = 0b001_1001;
    pub const MOVUP8: u8 = 0b001_1010;
    pub const MOVDN8: u8 = 0b001_1011;
    pub const SWAPW2: u8 = 0b001_1100;
    pub const SWAPW3: u8 = 0b001_1101;
    pub const SWAPDW: u8 = 0b001_1110;
    pub const ASSERT: u8 = 0b010_0000;
    pub const EQ: u8 = 0b010_0001;
    pub const ADD: u8 = 0b010_0010;
    pub const MUL: u8 = 0b010_0011;
    pub const AND: u8 = 0b010_0100;
    pub const OR: u8 = 0b010_0101;
    pub const U32AND: u8 = 0b010_0110;
    pub const U32XOR: u8 = 0b010_0111;
    pub const FRIE2F4: u8 = 0b010_1000;
    pub const DROP: u8 = 0b010_1001;
    pub const CSWAP: u8 = 0b010_1010;
    pub const CSWAPW: u8 = 0b010_1011;
    pub const MLOADW: u8 = 0b010_1100;
    pub const MSTORE: u8 = 0b010_1101;
    pub const MSTOREW: u8 = 0b010_1110;
    pub const FMPUPDATE: u8 = 0b010_1111;
    pub const PAD: u8 = 0b011_0000;
    pub const DUP0: u8 = 0b011_0001;
    pub const DUP1: u8 = 0b011_0010;
    pub const DUP2: u8 = 0b011_0011;
    pub const DUP3: u8 = 0b011_0100;
    pub const DUP4: u8 = 0b011_0101;
    pub const DUP5: u8 = 0b011_0110;
    pub const DUP6: u8 = 0b011_0111;
    pub const DUP7: u8 = 0b011_1000;
    pub const DUP9: u8 = 0b011_1001;
    pub const DUP11: u8 = 0b011_1010;
    pub const DUP13: u8 = 0b011_1011;
    pub const DUP15: u8 = 0b011_1100;
    pub const ADVPOP: u8 = 0b011_1101;
    pub const SDEPTH: u8 = 0b011_1110;
    pub const CLK: u8 = 0b011_1111;
    pub const U32ADD: u8 = 0b100_0000;
    pub const U32SUB: u8 = 0b100_0010;
    pub const U32MUL: u8 = 0b100_0100;
    pub const U32DIV: u8 = 0b100_0110;
    pub const U32SPLIT: u8 = 0b100_1000;
    pub const U32ASSERT2: u8 = 0b100_1010;
    pub const U32ADD3: u8 = 0b100_1100;
    pub const U32MADD: u8 = 0b100_1110;
    pub const HPERM: u8 = 0b101_0000;
    pub const MPVERIFY: u8 = 0b101_0001;
    pub const PIPE: u8 = 0b101_0010;
    pub const MSTREAM: u8 = 0b101_0011;
    pub const SPLIT: u8 = 0b101_0100;
    pub const LOOP: u8 = 0b101_0101;
    pub const SPAN: u8 = 0b101_0110;
    pub const JOIN: u8 = 0b101_0111;
    pub const DYN: u8 = 0b101_1000;
    pub const RCOMBBASE: u8 = 0b101_1001;
    pub const MRUPDATE: u8 = 0b110_0000;
    pub const PUSH: u8 = 0b110_0100;
    pub const SYSCALL: u8 = 0b110_1000;
    pub const CALL: u8 = 0b110_1100;
    pub const END: u8 = 0b111_0000;
    pub const REPEAT: u8 = 0b111_0100;
    pub const RESPAN: u8 = 0b111_1000;
    pub const HALT: u8 = 0b111_1100;
}
