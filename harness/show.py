import json,sys
v=json.load(open(sys.argv[1]))
c=v['case']
if 'case' in c and isinstance(c['case'],dict): 
    cc=c['case']
    print(cc.get('kernel') or '', cc['src']); print('stack',cc['stack_top_first'],'adv',cc['advice_stack']); print('expect',c.get('expect'))
else: print(json.dumps(c,indent=1)[:3000])
print(v['signature'], v['message'])
